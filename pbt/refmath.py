"""Independent reference mathematics (trusted base). numpy only -- never imports skglm.

Everything here is transcribed from the *documentation* (docstrings, doc/tutorials) of the
objects under test, not from their code: losses as functions of the linear predictor eta,
penalties as functions of the coefficient(s), regular subdifferentials as intervals, the prox
objective, and composed-problem certificates. `selftest()` cross-checks the pieces against
finite differences and brute force and is run by `./run selftest`.
"""
import numpy as np
from numpy.linalg import norm

INF = np.inf


# =============================================================================================
# Losses  f(y, eta): value, gradient w.r.t. eta, diagonal Hessian w.r.t. eta (None if n/a)
class Loss:
    name = "loss"
    stackable = True   # 1/n normalised

    def value(self, y, eta):
        raise NotImplementedError

    def grad(self, y, eta):
        raise NotImplementedError

    def hess(self, y, eta):
        return None


class Quadratic(Loss):
    name = "Quadratic"

    def value(self, y, eta):
        return float(((y - eta) ** 2).sum() / (2 * len(y)))

    def grad(self, y, eta):
        return (eta - y) / len(y)

    def hess(self, y, eta):
        return np.ones(len(y)) / len(y)


class WeightedQuadratic(Loss):
    name = "WeightedQuadratic"

    def __init__(self, sw):
        self.sw = np.asarray(sw, float)

    def value(self, y, eta):
        return float((self.sw * (y - eta) ** 2).sum() / (2 * self.sw.sum()))

    def grad(self, y, eta):
        return self.sw * (eta - y) / self.sw.sum()

    def hess(self, y, eta):
        return self.sw / self.sw.sum()


class Logistic(Loss):
    name = "Logistic"

    def value(self, y, eta):
        return float(np.logaddexp(0, -y * eta).sum() / len(y))

    def grad(self, y, eta):
        z = y * eta
        return -y * _expit(-z) / len(y)

    def hess(self, y, eta):
        z = y * eta
        return _expit(z) * _expit(-z) / len(y)    # sigma(z)(1-sigma(z)) without cancellation


def _expit(x):
    out = np.empty_like(x, dtype=float)
    pos = x >= 0
    out[pos] = 1 / (1 + np.exp(-x[pos]))
    e = np.exp(x[~pos])
    out[~pos] = e / (1 + e)
    return out


class Huber(Loss):
    name = "Huber"

    def __init__(self, delta):
        self.delta = float(delta)

    def value(self, y, eta):
        r = np.abs(y - eta)
        d = self.delta
        return float(np.where(r <= d, .5 * r ** 2, d * r - .5 * d ** 2).sum() / len(y))

    def grad(self, y, eta):
        r = y - eta
        d = self.delta
        return -np.where(np.abs(r) <= d, r, d * np.sign(r)) / len(y)

    def hess(self, y, eta):
        return (np.abs(y - eta) < self.delta) / len(y)

    def at_kink(self, y, eta, rel=1e-9):
        return bool(np.any(np.abs(np.abs(y - eta) - self.delta) <= rel * max(1., self.delta)))


class Poisson(Loss):
    name = "Poisson"

    def value(self, y, eta):
        return float((np.exp(eta) - y * eta).sum() / len(y))

    def grad(self, y, eta):
        return (np.exp(eta) - y) / len(y)

    def hess(self, y, eta):
        return np.exp(eta) / len(y)


class Gamma(Loss):
    name = "Gamma"

    def value(self, y, eta):
        # docstring: 1/n sum( Xw_i + y_i exp(-Xw_i) - 1 - log(y_i) )
        return float((eta + y * np.exp(-eta) - 1 - np.log(y)).sum() / len(y))

    def grad(self, y, eta):
        return (1 - y * np.exp(-eta)) / len(y)

    def hess(self, y, eta):
        return y * np.exp(-eta) / len(y)


class Cox(Loss):
    """Negative log partial likelihood / n; y = (time, status). Explicit O(n^2) risk sets.

    Breslow:  1/n sum_{i: s_i=1} [ -eta_i + log sum_{j: t_j >= t_i} e^{eta_j} ]
    Efron  :  for each uncensored tie group H (same time, all observed), member number k=0..|H|-1:
              -eta_i + log( sum_{t_j >= t} e^{eta_j} - k/|H| sum_{j in H} e^{eta_j} )
    (doc/tutorials/cox_datafit.rst)
    """
    name = "Cox"
    stackable = False

    def __init__(self, efron):
        self.efron = bool(efron)

    def _terms(self, y, eta):
        """list of (set of eta-indices in numerator (-eta_i summed), coefficient vector c) so that
        value = 1/n sum_terms [ -eta_i + log(c @ exp(eta)) ]"""
        tm, s = y[:, 0], y[:, 1]
        n = len(eta)
        terms = []
        if not self.efron:
            for i in range(n):
                if s[i] == 0:
                    continue
                terms.append((i, (tm >= tm[i]).astype(float)))
        else:
            for t in np.unique(tm):
                H = np.flatnonzero((tm == t) & (s != 0))
                if len(H) == 0:
                    continue
                risk = (tm >= t).astype(float)
                inH = np.zeros(n)
                inH[H] = 1.
                for k, i in enumerate(H):
                    terms.append((i, risk - (k / len(H)) * inH))
        return terms

    def value(self, y, eta):
        e = np.exp(eta)
        return float(sum(-eta[i] + np.log(c @ e) for i, c in self._terms(y, eta)) / len(eta))

    def grad(self, y, eta):
        e = np.exp(eta)
        g = np.zeros(len(eta))
        for i, c in self._terms(y, eta):
            g[i] -= 1.
            g += c * e / (c @ e)
        return g / len(eta)

    def hess_full(self, y, eta):
        e = np.exp(eta)
        n = len(eta)
        H = np.zeros((n, n))
        for i, c in self._terms(y, eta):
            p = c * e / (c @ e)
            H += np.diag(p) - np.outer(p, p)
        return H / n


class SqrtQuadratic(Loss):
    """docstring: ||y - Xw||_2 (unnormalised)."""
    name = "SqrtQuadratic"
    stackable = False

    def value(self, y, eta):
        return float(norm(y - eta))

    def grad(self, y, eta):
        r = eta - y
        return r / norm(r)

    def hess_full(self, y, eta):
        r = eta - y
        nr = norm(r)
        return np.eye(len(y)) / nr - np.outer(r, r) / nr ** 3


class Pinball(Loss):
    """docstring: sum_i q max(y_i - eta_i, 0) + (1-q) max(eta_i - y_i, 0) (unnormalised)."""
    name = "Pinball"
    stackable = False

    def __init__(self, q):
        self.q = float(q)

    def value(self, y, eta):
        r = y - eta
        return float((self.q * np.maximum(r, 0) + (1 - self.q) * np.maximum(-r, 0)).sum())


class SVCDual(Loss):
    """QuadraticSVC: with M = (y X)^T (shape n_features x n_samples) and dual variable w:
    1/2 ||M w||^2 - sum(w); as a function of theta = M w and w."""
    name = "QuadraticSVC"
    stackable = False

    def value_w(self, theta, w):
        return float(.5 * (theta ** 2).sum() - np.sum(w))


class QuadraticMultiTask(Loss):
    name = "QuadraticMultiTask"

    def value(self, Y, E):
        return float(((Y - E) ** 2).sum() / (2 * Y.shape[0]))

    def grad(self, Y, E):
        return (E - Y) / Y.shape[0]


# =============================================================================================
# Scalar separable penalties
class Pen:
    """value(w) = sum_j phi(w_j, j); regular subdifferential of phi_j (+ constraint) as interval."""
    convex = True
    positive = False
    name = "pen"

    def weight(self, j):
        return 1.

    def phi(self, w, j):
        raise NotImplementedError

    def lo_hi(self, w, j):
        raise NotImplementedError

    def value(self, w):
        return float(sum(self.phi(float(wj), j) for j, wj in enumerate(w)))

    def phi_vec(self, us, j):
        """vectorised phi over an array of points (overridden with numpy forms; tested equal)."""
        return np.array([self.phi(float(u), j) for u in us])

    def feasible(self, w):
        return all(np.isfinite(self.phi(float(wj), j)) for j, wj in enumerate(w))

    def is_penalized(self, j):
        return True

    def sdist(self, w, g, j):
        """distance of -g to the regular subdifferential of phi_j at w (inf if empty)."""
        iv = self.lo_hi(float(w), j)
        if iv is None:
            return INF
        lo, hi = iv
        v = -float(g)
        return max(0., lo - v, v - hi)

    def sdist_vec(self, w, g):
        return np.array([self.sdist(w[j], g[j], j) for j in range(len(w))])

    def breakpoints(self, j):
        return [0.]


class L1(Pen):
    name = "L1"

    def __init__(self, alpha, weights=None, positive=False):
        self.alpha, self.w, self.positive = float(alpha), weights, bool(positive)
        if weights is not None:
            self.name = "WeightedL1"

    def weight(self, j):
        return 1. if self.w is None else float(self.w[j])

    def a(self, j):
        return self.alpha * self.weight(j)

    def is_penalized(self, j):
        return self.weight(j) != 0

    def phi(self, w, j):
        return INF if (self.positive and w < 0) else self.a(j) * abs(w)

    def phi_vec(self, us, j):
        v = self.a(j) * np.abs(us)
        return np.where(us < 0, INF, v) if self.positive else v

    def lo_hi(self, w, j):
        a = self.a(j)
        if self.positive:
            if w < 0:
                return None
            if w == 0:
                return (-INF, a)
            return (a, a)
        if w == 0:
            return (-a, a)
        return (a * np.sign(w),) * 2


class L1_plus_L2(Pen):
    name = "L1_plus_L2"

    def __init__(self, alpha, l1_ratio, positive=False):
        self.alpha, self.r, self.positive = float(alpha), float(l1_ratio), bool(positive)

    def phi(self, w, j):
        if self.positive and w < 0:
            return INF
        return self.alpha * (self.r * abs(w) + (1 - self.r) * w * w / 2)

    def phi_vec(self, us, j):
        v = self.alpha * (self.r * np.abs(us) + (1 - self.r) * us * us / 2)
        return np.where(us < 0, INF, v) if self.positive else v

    def lo_hi(self, w, j):
        a = self.alpha * self.r
        q = self.alpha * (1 - self.r) * w
        if self.positive:
            if w < 0:
                return None
            if w == 0:
                return (-INF, a)
            return (a + q,) * 2
        if w == 0:
            return (-a, a)
        return (a * np.sign(w) + q,) * 2


class MCP(Pen):
    """docstring: pen(x) = alpha x - x^2/(2 gamma) if x <= alpha gamma else gamma alpha^2/2,
    value = sum_j weights_j pen(|w_j|)."""
    name = "MCPenalty"
    convex = False

    def __init__(self, alpha, gamma, weights=None, positive=False):
        self.alpha, self.gamma, self.w, self.positive = float(alpha), float(gamma), weights, bool(positive)
        if weights is not None:
            self.name = "WeightedMCPenalty"

    def weight(self, j):
        return 1. if self.w is None else float(self.w[j])

    def phi(self, w, j):
        if self.positive and w < 0:
            return INF
        a = abs(w)
        al, g = self.alpha, self.gamma
        v = al * a - a * a / (2 * g) if a <= al * g else g * al ** 2 / 2
        return self.weight(j) * v

    def phi_vec(self, us, j):
        a = np.abs(us)
        al, g = self.alpha, self.gamma
        v = self.weight(j) * np.where(a <= al * g, al * a - a * a / (2 * g), g * al ** 2 / 2)
        return np.where(us < 0, INF, v) if self.positive else v

    def d(self, a):
        return max(self.alpha - a / self.gamma, 0.)

    def lo_hi(self, w, j):
        wt = self.weight(j)
        if self.positive and w < 0:
            return None
        if w == 0:
            return (-INF if self.positive else -wt * self.alpha, wt * self.alpha)
        return (wt * np.sign(w) * self.d(abs(w)),) * 2

    def breakpoints(self, j):
        return [0., self.alpha * self.gamma, -self.alpha * self.gamma]


class SCAD(Pen):
    name = "SCAD"
    convex = False

    def __init__(self, alpha, gamma):
        self.alpha, self.gamma = float(alpha), float(gamma)

    def phi(self, w, j):
        a = abs(w)
        al, g = self.alpha, self.gamma
        if a <= al:
            return al * a
        if a <= al * g:
            return (2 * g * al * a - a * a - al * al) / (2 * (g - 1))
        return al * al * (g + 1) / 2

    def phi_vec(self, us, j):
        a = np.abs(us)
        al, g = self.alpha, self.gamma
        return np.where(a <= al, al * a, np.where(
            a <= al * g, (2 * g * al * a - a * a - al * al) / (2 * (g - 1)), al * al * (g + 1) / 2))

    def d(self, a):
        al, g = self.alpha, self.gamma
        if a <= al:
            return al
        if a <= al * g:
            return (g * al - a) / (g - 1)
        return 0.

    def lo_hi(self, w, j):
        if w == 0:
            return (-self.alpha, self.alpha)
        return (np.sign(w) * self.d(abs(w)),) * 2

    def breakpoints(self, j):
        a, g = self.alpha, self.gamma
        return [0., a, -a, a * g, -a * g]


class Box(Pen):
    name = "IndicatorBox"

    def __init__(self, C):
        self.C = float(C)

    def phi(self, w, j):
        return 0. if 0 <= w <= self.C else INF

    def phi_vec(self, us, j):
        return np.where((us >= 0) & (us <= self.C), 0., INF)

    def lo_hi(self, w, j):
        if w < 0 or w > self.C:
            return None
        if self.C == 0:
            return (-INF, INF)
        if w == 0:
            return (-INF, 0.)
        if w == self.C:
            return (0., INF)
        return (0., 0.)

    def breakpoints(self, j):
        return [0., self.C]


class Positive(Pen):
    name = "PositiveConstraint"
    positive = True

    def phi(self, w, j):
        return 0. if w >= 0 else INF

    def phi_vec(self, us, j):
        return np.where(us >= 0, 0., INF)

    def lo_hi(self, w, j):
        if w < 0:
            return None
        if w == 0:
            return (-INF, 0.)
        return (0., 0.)


class Lq(Pen):
    convex = False

    def __init__(self, alpha, q):
        self.alpha, self.q = float(alpha), float(q)
        self.name = "L0_5" if q == 0.5 else "L2_3"

    def phi(self, w, j):
        return self.alpha * abs(w) ** self.q

    def phi_vec(self, us, j):
        return self.alpha * np.abs(us) ** self.q

    def lo_hi(self, w, j):
        if w == 0:
            return (-INF, INF)
        return (np.sign(w) * self.alpha * self.q * abs(w) ** (self.q - 1),) * 2


class LogSum(Pen):
    name = "LogSumPenalty"
    convex = False

    def __init__(self, alpha, eps):
        self.alpha, self.eps = float(alpha), float(eps)

    def phi(self, w, j):
        return self.alpha * np.log1p(abs(w) / self.eps)

    def phi_vec(self, us, j):
        return self.alpha * np.log1p(np.abs(us) / self.eps)

    def lo_hi(self, w, j):
        a = self.alpha / self.eps
        if w == 0:
            return (-a, a)
        return (np.sign(w) * self.alpha / (self.eps + abs(w)),) * 2


class L2sq(Pen):
    name = "L2"

    def __init__(self, alpha):
        self.alpha = float(alpha)

    def phi(self, w, j):
        return self.alpha * w * w / 2

    def phi_vec(self, us, j):
        return self.alpha * us * us / 2

    def lo_hi(self, w, j):
        return (self.alpha * w,) * 2


# ---------------------------------------------------------------------------------------------
def prox_scalar_min(pen, j, x, step, ngrid=4001, rounds=4):
    """(min value, argmin) of u -> (u-x)^2/2 + step*phi_j(u): dense grid + break points + refinement."""
    x = float(x)
    R = abs(x) * 1.25 + 1.0
    bps = [b for b in pen.breakpoints(j)] + [0., x]

    def obj(us):
        us = np.asarray(us, float)
        return .5 * (us - x) ** 2 + step * pen.phi_vec(us, j)
    lo, hi = -R, R
    best = (INF, 0.)
    for it in range(rounds):
        us = np.concatenate([np.linspace(lo, hi, ngrid), bps])
        vals = obj(us)
        k = int(np.argmin(vals))
        if vals[k] < best[0]:
            best = (float(vals[k]), float(us[k]))
        h = (hi - lo) / (ngrid - 1) * 3
        lo, hi = best[1] - h, best[1] + h
    return best


def prox_obj_scalar(pen, j, u, x, step):
    return .5 * (u - x) ** 2 + step * pen.phi(float(u), j)


# =============================================================================================
# Block penalties: value over blocks, closed-form distance of -g to the subdifferential
class BlockPen:
    convex = True
    name = "blockpen"

    def psi(self, r, b):
        """penalty of block b as a function of its norm r >= 0 (norm-type penalties)."""
        raise NotImplementedError

    def dpsi(self, r, b):
        raise NotImplementedError

    def dpsi0(self, b):
        """right derivative at 0 (radius of the subdifferential ball at the origin); inf = whole space."""
        raise NotImplementedError

    def block_value(self, wb, b):
        return self.psi(float(norm(wb)), b)

    def block_sdist(self, wb, gb, b):
        wb = np.asarray(wb, float)
        gb = np.asarray(gb, float)
        r = norm(wb)
        if r == 0:
            d0 = self.dpsi0(b)
            return 0. if np.isinf(d0) else max(0., norm(gb) - d0)
        return float(norm(gb + self.dpsi(r, b) * wb / r))


class GroupL2(BlockPen):
    """alpha * sum_g weights_g ||w_g|| (+ indicator of w_g >= 0 if positive)."""
    name = "WeightedGroupL2"

    def __init__(self, alpha, weights, groups, positive=False):
        self.alpha, self.weights, self.groups, self.positive = float(alpha), np.asarray(weights, float), groups, bool(positive)

    def value(self, w):
        w = np.asarray(w, float)
        if self.positive and np.any(w < 0):
            return INF
        return float(sum(self.alpha * self.weights[g] * norm(w[idx]) for g, idx in enumerate(self.groups)))

    def block_value(self, wb, g):
        if self.positive and np.any(np.asarray(wb) < 0):
            return INF
        return self.alpha * self.weights[g] * float(norm(wb))

    def block_sdist(self, wb, gb, g):
        wb = np.asarray(wb, float)
        v = -np.asarray(gb, float)
        a = self.alpha * self.weights[g]
        r = norm(wb)
        if not self.positive:
            if r == 0:
                return max(0., norm(v) - a)
            return float(norm(v - a * wb / r))
        if np.any(wb < 0):
            return INF
        if r == 0:
            # subdiff = {u + nu : ||u|| <= a, nu <= 0}; distance = (||v_+|| - a)_+
            return max(0., norm(np.maximum(v, 0)) - a)
        res = np.where(wb > 0, v - a * wb / r, np.maximum(v, 0.))
        return float(norm(res))

    def sdist_all(self, w, grad):
        return np.array([self.block_sdist(w[idx], grad[idx], g) for g, idx in enumerate(self.groups)])


class SparseGroup(BlockPen):
    """alpha * ( sum_g wg_g ||w_g|| + sum_j wf_j |w_j| )"""
    name = "WeightedL1GroupL2"

    def __init__(self, alpha, wg, wf, groups):
        self.alpha, self.wg, self.wf, self.groups = float(alpha), np.asarray(wg, float), np.asarray(wf, float), groups

    def value(self, w):
        w = np.asarray(w, float)
        return float(self.alpha * (sum(self.wg[g] * norm(w[idx]) for g, idx in enumerate(self.groups))
                                   + (self.wf * np.abs(w)).sum()))

    def block_value(self, wb, g):
        idx = self.groups[g]
        return float(self.alpha * (self.wg[g] * norm(wb) + (self.wf[idx] * np.abs(wb)).sum()))


class RowPen(BlockPen):
    """Row-wise penalties on W (n_features x n_tasks): sum_j psi(||W_j||)."""

    def value(self, W):
        W = np.asarray(W, float)
        if W.ndim == 1:
            W = W[:, None]
        return float(sum(self.psi(float(norm(W[j])), j) for j in range(W.shape[0])))


class L21(RowPen):
    name = "L2_1"

    def __init__(self, alpha):
        self.alpha = float(alpha)

    def psi(self, r, b):
        return self.alpha * r

    def dpsi(self, r, b):
        return self.alpha

    def dpsi0(self, b):
        return self.alpha


class L205(RowPen):
    name = "L2_05"
    convex = False

    def __init__(self, alpha):
        self.alpha = float(alpha)

    def psi(self, r, b):
        return self.alpha * np.sqrt(r)

    def dpsi(self, r, b):
        return self.alpha / (2 * np.sqrt(r))

    def dpsi0(self, b):
        return INF


class BlockMCP(RowPen):
    name = "BlockMCPenalty"
    convex = False

    def __init__(self, alpha, gamma):
        self.alpha, self.gamma = float(alpha), float(gamma)

    def psi(self, r, b):
        al, g = self.alpha, self.gamma
        return al * r - r * r / (2 * g) if r <= al * g else g * al ** 2 / 2

    def dpsi(self, r, b):
        return max(self.alpha - r / self.gamma, 0.)

    def dpsi0(self, b):
        return self.alpha


class BlockSCAD(RowPen):
    name = "BlockSCAD"
    convex = False

    def __init__(self, alpha, gamma):
        self.alpha, self.gamma = float(alpha), float(gamma)
        self._s = SCAD(alpha, gamma)

    def psi(self, r, b):
        return self._s.phi(r, 0)

    def dpsi(self, r, b):
        return self._s.d(r)

    def dpsi0(self, b):
        return self.alpha


def slope_value(w, alphas):
    """SLOPE: sum_i alphas_i |w|_(i) with |w|_(1) >= |w|_(2) >= ... and alphas non-increasing."""
    return float(np.sort(np.abs(w))[::-1] @ np.asarray(alphas))


def prox_block_min(value_fn, x, step, rng_probes=None, extra=()):
    """Lower envelope estimate of min_u ||u-x||^2/2 + step*value_fn(u) for radial-type block
    penalties: 1-D search along the rays t*x and t*x_+ plus candidate points and local probes."""
    x = np.asarray(x, float)

    def obj(u):
        return .5 * float(((u - x) ** 2).sum()) + step * value_fn(u)
    cands = [np.zeros_like(x), x.copy(), np.maximum(x, 0)]
    cands += [np.asarray(e, float) for e in extra]
    best = min(obj(u) for u in cands)
    for d in (x, np.maximum(x, 0)):
        if not np.any(d):
            continue
        lo, hi = 0., 1.5
        for it in range(4):
            ts = np.linspace(lo, hi, 801)
            vals = np.array([obj(t * d) for t in ts])
            k = int(np.argmin(vals))
            best = min(best, float(vals[k]))
            h = (hi - lo) / 800 * 3
            lo, hi = max(0., ts[k] - h), ts[k] + h
    return best


# =============================================================================================
# Composed-problem certificates
def lin_pred(X, w, b=0.):
    return X @ w + b


def scalar_problem_violation(X, y, loss, pen, w, b, fit_intercept, strategy="subdiff", lips=None):
    """(max feature violation, intercept violation, per-feature vector) recomputed from X, y, w, b."""
    eta = X @ w + (b if fit_intercept else 0.)
    r = loss.grad(y, eta)
    g = X.T @ r
    p = len(w)
    if strategy == "subdiff":
        v = np.array([pen.sdist(w[j], g[j], j) for j in range(p)])
    else:
        v = np.zeros(p)
        for j in range(p):
            if lips[j] == 0:
                continue
            s = 1. / lips[j]
            x = w[j] - s * g[j]
            v[j] = fixpoint_residual_scalar(pen, j, w[j], x, s)
    vi = abs(float(r.sum())) if fit_intercept else 0.
    return (float(v.max()) if p else 0.), vi, v, g


def fixpoint_residual_scalar(pen, j, wj, x, s):
    """|w_j - prox(x)| for convex scalar penalties via the reference prox argmin (closed forms)."""
    return abs(wj - prox_scalar_ref(pen, j, x, s))


def prox_scalar_ref(pen, j, x, s):
    """Closed-form prox for the convex scalar penalties (from their textbook formulas)."""
    if isinstance(pen, L1):
        t = s * pen.a(j)
        if pen.positive:
            return max(x - t, 0.)
        return np.sign(x) * max(abs(x) - t, 0.)
    if isinstance(pen, L1_plus_L2):
        t = s * pen.alpha * pen.r
        u = max(x - t, 0.) if pen.positive else np.sign(x) * max(abs(x) - t, 0.)
        return u / (1 + s * pen.alpha * (1 - pen.r))
    if isinstance(pen, Box):
        return min(max(x, 0.), pen.C)
    if isinstance(pen, Positive):
        return max(x, 0.)
    if isinstance(pen, L2sq):
        return x / (1 + s * pen.alpha)
    # non-convex: numerical global minimiser
    return prox_scalar_min(pen, j, x, s)[1]


def objective_scalar(X, y, loss, pen, w, b=0.):
    eta = X @ w + b
    return loss.value(y, eta) + pen.value(w)


def group_problem_violation(X, y, loss, pen, w, b, fit_intercept):
    eta = X @ w + (b if fit_intercept else 0.)
    r = loss.grad(y, eta)
    g = X.T @ r
    v = pen.sdist_all(w, g)
    vi = abs(float(r.sum())) if fit_intercept else 0.
    return (float(v.max()) if len(v) else 0.), vi, v, g


def multitask_problem_violation(X, Y, pen, W, B, fit_intercept):
    n = X.shape[0]
    E = X @ W + (B if fit_intercept else 0.)
    R = (E - Y) / n
    G = X.T @ R
    v = np.array([pen.block_sdist(W[j], G[j], j) for j in range(W.shape[0])])
    vi = float(np.abs(R.sum(axis=0)).max()) if fit_intercept else 0.
    return (float(v.max()) if len(v) else 0.), vi, v, G


# ---------------------------------------------------------------------------------------------
# Fenchel duals (lower bounds on the optimum) for the convex families of C02
def lasso_dual(X, y, alpha, w, b=0., l1_ratio=1., positive=False, sample_weight=None):
    """Dual value of  1/(2n)||y - Xw - b||^2 + alpha*l1_ratio*|w|_1 + alpha(1-l1_ratio)/2 |w|^2
    at the rescaled residual (feasible by construction). Returns a lower bound on the optimum."""
    n = len(y)
    r = y - X @ w - b
    if b != 0. or True:
        # with a free intercept the dual needs sum(theta)=0; centring r keeps feasibility
        pass
    l1 = alpha * l1_ratio
    l2 = alpha * (1 - l1_ratio)
    if l2 == 0:
        c = X.T @ r / n
        m = np.max(c) if positive else np.max(np.abs(c))
        s = 1. if m <= l1 else l1 / m
        th = s * r
        return float((y @ th) / n - (th @ th) / (2 * n))
    # elastic net: dual = 1/n y.th - 1/(2n) th.th - 1/(2 l2) sum ST(X^T th/n, l1)^2 (any th feasible)
    th = r
    c = X.T @ th / n
    st = np.maximum(c - l1, 0) if positive else np.maximum(np.abs(c) - l1, 0)
    return float((y @ th) / n - (th @ th) / (2 * n) - (st ** 2).sum() / (2 * l2))


# =============================================================================================
def selftest(verbose=False):
    rng = np.random.default_rng(0)
    n = 7
    # --- losses: gradient vs central differences, Hessian vs differences of the gradient
    y_real = rng.standard_normal(n)
    y_pm = np.where(rng.random(n) < .5, 1., -1.)
    y_cnt = rng.poisson(2., n).astype(float)
    y_pos = rng.random(n) + .2
    tm = rng.integers(1, 4, n).astype(float)
    st = (rng.random(n) < .7).astype(float)
    st[0] = 1.
    y_cox = np.c_[tm, st]
    cases = [(Quadratic(), y_real), (WeightedQuadratic(rng.random(n) + .1), y_real),
             (Logistic(), y_pm), (Huber(.7), y_real), (Poisson(), y_cnt), (Gamma(), y_pos),
             (Cox(False), y_cox), (Cox(True), y_cox), (SqrtQuadratic(), y_real)]
    for loss, y in cases:
        eta = rng.standard_normal(n) * .5
        g = loss.grad(y, eta)
        h = 1e-6
        gn = np.array([(loss.value(y, eta + h * e) - loss.value(y, eta - h * e)) / (2 * h) for e in np.eye(n)])
        assert np.allclose(g, gn, atol=1e-7), (loss.name, g, gn)
        H = loss.hess(y, eta)
        Hn = np.array([(loss.grad(y, eta + h * e) - loss.grad(y, eta - h * e)) / (2 * h) for e in np.eye(n)])
        if H is not None:
            assert np.allclose(np.diag(Hn), H, atol=1e-6), (loss.name, "hess")
        if hasattr(loss, "hess_full"):
            assert np.allclose(Hn, loss.hess_full(y, eta), atol=1e-6), (loss.name, "hess_full")
    # --- scalar penalties: interval vs one-sided difference quotients; prox optimality
    pens = [L1(.7), L1(.7, np.array([0., 2., .5]), True), L1_plus_L2(.9, .3), L1_plus_L2(.9, .3, True),
            MCP(.8, 2.5), MCP(.8, 2.5, np.array([1.5, 0., .3]), True), SCAD(.6, 3.2), Box(1.3), Positive(),
            Lq(.7, .5), Lq(.7, 2 / 3), LogSum(.5, .3), L2sq(.4)]
    for pen in pens:
        us = np.r_[np.linspace(-3, 3, 41), 0., pen.breakpoints(0)]
        for j in range(3):
            a1 = pen.phi_vec(us, j)
            a2 = np.array([pen.phi(float(u), j) for u in us])
            assert np.array_equal(np.isfinite(a1), np.isfinite(a2)) and np.allclose(
                a1[np.isfinite(a1)], a2[np.isfinite(a2)], rtol=1e-14, atol=0), (pen.name, "phi_vec")
    for pen in pens:
        for j in range(3):
            for w in [-1.7, -.3, 0., .2, .8, 1.3, 2.9]:
                iv = pen.lo_hi(w, j)
                if iv is None:
                    assert not np.isfinite(pen.phi(w, j))
                    continue
                h = 1e-7
                fp = (pen.phi(w + h, j) - pen.phi(w, j)) / h
                fm = (pen.phi(w, j) - pen.phi(w - h, j)) / h
                lo, hi = iv
                if np.isfinite(fm) and np.isfinite(lo) and abs(fm) < 1e5:
                    assert abs(lo - fm) < 1e-4 * (1 + abs(fm)), (pen.name, w, iv, fm, fp)
                if np.isfinite(fp) and np.isfinite(hi) and abs(fp) < 1e5:
                    assert abs(hi - fp) < 1e-4 * (1 + abs(fp)), (pen.name, w, iv, fm, fp)
            for x in [-2.3, -.4, 0., .3, 1.1, 3.]:
                s = .4
                mv, u = prox_scalar_min(pen, j, x, s)
                us = np.linspace(-4, 4, 80001)
                bv = min(prox_obj_scalar(pen, j, t, x, s) for t in us[::40])
                assert mv <= bv + 1e-9, (pen.name, x, mv, bv)
                if pen.convex:
                    ur = prox_scalar_ref(pen, j, x, s)
                    assert prox_obj_scalar(pen, j, ur, x, s) <= mv + 1e-9, (pen.name, "closed form", x, ur, u)
    # --- block distance vs numerical projection for the group penalty
    groups = [np.array([0, 2]), np.array([1]), np.array([3, 4, 5])]
    for positive in (False, True):
        gp = GroupL2(.7, np.array([1., 0., 2.]), groups, positive)
        for trial in range(30):
            w = rng.standard_normal(6) * (rng.random(6) < .6)
            if positive:
                w = np.abs(w)
            if trial % 3 == 0:
                w[groups[2]] = 0
            g = rng.standard_normal(6)
            for b, idx in enumerate(groups):
                d = gp.block_sdist(w[idx], g[idx], b)
                # stationarity <=> prox fixed point (convex): compare with prox-gradient residual sign
                a = gp.alpha * gp.weights[b]
                x = w[idx] - g[idx]
                if positive:
                    xp = np.maximum(x, 0)
                    nr = norm(xp)
                    pr = np.zeros_like(x) if nr <= a else (1 - a / nr) * xp
                else:
                    nr = norm(x)
                    pr = np.zeros_like(x) if nr <= a else (1 - a / nr) * x
                assert (d < 1e-12) == (norm(pr - w[idx]) < 1e-12), (positive, w[idx], g[idx], d, pr)
    if verbose:
        print("refmath selftest ok")
    return True


if __name__ == "__main__":
    selftest(True)
