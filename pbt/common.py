"""Shared helpers: environment bootstrap for worker processes, canonical JSON, known findings."""
import hashlib
import json
import math
import os
import sys

VERIF_DIR = os.path.dirname(os.path.dirname(os.path.abspath(__file__)))
REPO = os.environ.get("VERIF_REPO", "/repo")


def bootstrap():
    """Make `import skglm` resolve to VERIF_REPO's working tree and install the sklearn shim."""
    if REPO not in sys.path or sys.path[0] != REPO:
        sys.path.insert(0, REPO)
    import warnings
    warnings.simplefilter("ignore")
    from . import skcompat  # noqa: F401  (sklearn>=1.6 removed BaseEstimator._validate_data)
    import skglm
    got = os.path.dirname(os.path.dirname(os.path.abspath(skglm.__file__)))
    if os.path.realpath(got) != os.path.realpath(REPO):
        raise RuntimeError(f"skglm imported from {got}, expected {REPO}")


# ---------------------------------------------------------------------------------------------
# canonical JSON
def to_jsonable(o):
    import numpy as np
    if isinstance(o, dict):
        return {str(k): to_jsonable(v) for k, v in o.items()}
    if isinstance(o, (list, tuple)):
        return [to_jsonable(v) for v in o]
    if isinstance(o, np.ndarray):
        return to_jsonable(o.tolist())
    if isinstance(o, (np.bool_,)):
        return bool(o)
    if isinstance(o, np.integer):
        return int(o)
    if isinstance(o, np.floating):
        return float(o)
    if isinstance(o, (str, int, float, bool)) or o is None:
        return o
    return repr(o)


def canon(o):
    return json.dumps(to_jsonable(o), sort_keys=True, separators=(",", ":"))


def sha(o):
    return hashlib.sha1(canon(o).encode()).hexdigest()


def derive_seed(*parts):
    h = hashlib.sha256("|".join(str(p) for p in parts).encode()).digest()
    return int.from_bytes(h[:8], "big")


def finite(x):
    import numpy as np
    return bool(np.all(np.isfinite(np.asarray(x, dtype=float))))


def fmt(x):
    if isinstance(x, float):
        if math.isnan(x) or math.isinf(x):
            return str(x)
        return f"{x:.6g}"
    return str(x)


# ---------------------------------------------------------------------------------------------
# known findings
_KF = None


def known_findings():
    global _KF
    if _KF is None:
        path = os.path.join(VERIF_DIR, "known_findings.json")
        with open(path) as f:
            _KF = json.load(f)["findings"]
    return _KF


def match_known(prop, sig):
    """Return the open known-finding entry matching this violation signature, or None."""
    for e in known_findings():
        if e.get("status") != "open":
            continue
        props = e["property"] if isinstance(e["property"], list) else [e["property"]]
        if prop not in props:
            continue
        want = e["signature"]
        ok = True
        for k, v in want.items():
            have = sig.get(k, None)
            if isinstance(v, list):
                if have not in v:
                    ok = False
                    break
            elif have != v:
                ok = False
                break
        if ok:
            return e
    return None


class HarnessError(Exception):
    """the checking machinery itself failed (exit 2); never evidence about the property."""


class Viol(dict):
    """A violation: sig (categorical site signature), msg, detail."""

    def __init__(self, sig, msg, **detail):
        super().__init__(sig=dict(sig), msg=str(msg), detail=to_jsonable(detail))


def result(viol=(), nontrivial=False, classes=(), info=None):
    return dict(viol=list(viol), nontrivial=bool(nontrivial), classes=list(classes),
                info=info or {})


# ---------------------------------------------------------------------------------------------
# fine-grained breadcrumbs (crash attribution inside a case that runs several cells)
_crumb_fn = None


def set_crumb(fn):
    global _crumb_fn
    _crumb_fn = fn


def crumb(obj):
    if _crumb_fn is not None:
        _crumb_fn(obj)
