"""Run one pure function of the code under test in a helper process so that a call which never returns
(an unbounded loop inside compiled code cannot be interrupted in-process) is observed instead of hanging
the shard.

    wd = Watchdog("pbt.checks.c07", "impl_prox")
    kind, *rest = wd.call(case)         # ("ok", value) | ("exc", type_name, message) | ("timeout", seconds)

The helper speaks JSON lines over its stdin/stdout; it imports <module> and applies <func> to each payload.
The time limit is not a performance oracle: it is 4-6 orders of magnitude above the cost of the calls routed
through it (micro-seconds; first call of a helper: one numba compilation), so only non-termination trips it.
A helper that dies or garbles its output is a harness error (HarnessError, exit 2), never a violation.
"""
import atexit
import importlib
import json
import os
import select
import subprocess
import sys
import time

from .common import HarnessError

FIRST_CALL_S = float(os.environ.get("VERIF_WATCHDOG_FIRST", "900"))
NEXT_CALL_S = float(os.environ.get("VERIF_WATCHDOG_NEXT", "60"))

_live = []


class Watchdog:
    def __init__(self, module, func):
        self.module, self.func = module, func
        self.proc = None
        self.warm = False
        self.buf = b""

    def _start(self):
        here = os.path.dirname(os.path.dirname(os.path.abspath(__file__)))
        env = dict(os.environ)
        env["PYTHONPATH"] = here + os.pathsep + env.get("PYTHONPATH", "")
        self.proc = subprocess.Popen([sys.executable, "-m", "pbt.watchdog", self.module, self.func],
                                     stdin=subprocess.PIPE, stdout=subprocess.PIPE, cwd=here, env=env)
        self.warm = False
        self.buf = b""
        _live.append(self)

    def close(self):
        if self.proc is not None:
            try:
                self.proc.kill()
                self.proc.wait(10)
            except Exception:  # noqa
                pass
            self.proc = None
        if self in _live:
            _live.remove(self)

    def _readline(self, limit):
        end = time.monotonic() + limit
        fd = self.proc.stdout.fileno()
        while b"\n" not in self.buf:
            left = end - time.monotonic()
            if left <= 0:
                return None
            r, _, _ = select.select([fd], [], [], min(left, 5.))
            if r:
                chunk = os.read(fd, 1 << 16)
                if not chunk:
                    raise HarnessError(f"watchdog helper for {self.module}.{self.func} exited "
                                       f"(rc={self.proc.poll()})")
                self.buf += chunk
        line, self.buf = self.buf.split(b"\n", 1)
        return line

    def _roundtrip(self, payload, limit):
        self.proc.stdin.write(json.dumps(payload).encode() + b"\n")
        self.proc.stdin.flush()
        return self._readline(limit)

    def call(self, payload, warmup=None):
        """warmup: a benign payload of the same compiled signature, sent first to a fresh helper so that
        compilation time is never charged to the call under observation."""
        if self.proc is None or self.proc.poll() is not None:
            self.close()
            self._start()
        if not self.warm and warmup is not None:
            if self._roundtrip(warmup, FIRST_CALL_S) is None:
                self.close()
                raise HarnessError(f"watchdog helper warm-up did not return within {FIRST_CALL_S}s")
            self.warm = True
        limit = NEXT_CALL_S if self.warm else FIRST_CALL_S
        line = self._roundtrip(payload, limit)
        if line is None:
            self.close()
            return ("timeout", limit)
        self.warm = True
        out = json.loads(line)
        return tuple(out)


@atexit.register
def _cleanup():
    for w in list(_live):
        w.close()


def _serve(module, func):
    out = os.fdopen(os.dup(1), "w")
    os.dup2(2, 1)           # stray prints of the code under test go to stderr, not into the protocol
    sys.stdout = sys.stderr
    fn = getattr(importlib.import_module(module), func)
    for line in sys.stdin:
        if not line.strip():
            continue
        payload = json.loads(line)
        try:
            res = ("ok", fn(payload))
        except Exception as e:  # noqa -- reported to the caller, which decides what it means
            res = ("exc", type(e).__name__, repr(e))
        out.write(json.dumps(res) + "\n")
        out.flush()


if __name__ == "__main__":
    _serve(sys.argv[1], sys.argv[2])
