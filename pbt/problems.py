"""Generated optimisation problems: composition + data + knobs + start point, and how to run / certify them.

A *case* is a plain JSON-able dict:
  solver   : dict(name=..., **knobs)
  datafit  : spec for compose.make_datafit (None for GramCD)
  penalty  : spec for compose.make_penalty
  X, y     : nested lists (X dense n x p; the container is chosen by `storage`)
  storage  : "dense" | "C" | "csc" | "csc64"
  init     : None or dict(w=[... p (+1 if intercept)]) -- Xw_init is always built consistently (= X w + b)
"""
import math

import numpy as np
from hypothesis import strategies as st

from . import gen, refmath as R
from .compose import make_datafit, make_penalty, make_solver, compiled, to_container, init_datafit

CD_DATAFITS = ["Quadratic", "WeightedQuadratic", "Logistic", "Huber", "QuadraticSVC"]
PN_DATAFITS = ["Logistic", "Poisson", "Gamma", "Quadratic", "WeightedQuadratic", "Cox-breslow", "Cox-efron"]
LBFGS_DATAFITS = ["Quadratic", "Logistic", "Poisson", "Cox-breslow", "Cox-efron", "WeightedQuadratic"]
SCALAR = ["L1", "WeightedL1", "L1_plus_L2", "MCPenalty", "WeightedMCPenalty", "SCAD", "L0_5", "L2_3",
          "LogSumPenalty", "IndicatorBox", "PositiveConstraint"]
ROW = ["L2_1", "L2_05", "BlockMCPenalty", "BlockSCAD"]


# ---------------------------------------------------------------------------------------------
def datafit_spec_and_target(draw, fam, X):
    n = X.shape[0]
    if fam.startswith("Cox"):
        return dict(name="Cox", use_efron=fam.endswith("efron")), draw(gen.survival_target(n))
    spec = dict(name=fam)
    if fam in ("Quadratic", "Huber", "WeightedQuadratic", "QuadraticGroup", "SqrtQuadratic"):
        y = draw(gen.planted_target(X)) if draw(st.booleans()) else draw(gen.real_target(n))
        if fam == "Huber":
            spec["delta"] = draw(gen.pos_float(-1, 1))
        if fam == "WeightedQuadratic":
            # fractional weights around 1, or frequency-like counts (mean well above 2: a coordinate step that
            # ignores them overshoots by more than the factor 2 that coordinate descent tolerates)
            if draw(st.booleans()):
                spec["sample_weights"] = [draw(st.integers(1, 40)) / 10. for _ in range(n)]
            else:
                spec["sample_weights"] = [float(draw(st.integers(1, 12))) for _ in range(n)]
        return spec, y
    if fam in ("Logistic", "LogisticGroup", "QuadraticSVC"):
        if draw(st.booleans()):
            return spec, draw(gen.planted_sign_target(X))
        return spec, draw(gen.sign_target(n))
    if fam == "Poisson":
        return spec, draw(gen.count_target(n))
    if fam == "Gamma":
        return spec, draw(gen.positive_target(n))
    raise KeyError(fam)


def coord_lipschitz(case):
    """documented coordinate constants (independent of skglm), for admissible-gamma choices and fix-point certificates"""
    X = np.array(case["X"], float)
    n = X.shape[0]
    d = case["datafit"]
    nm = d["name"] if d else "Quadratic"
    if nm == "WeightedQuadratic":
        sw = np.array(d["sample_weights"])
        return (sw[:, None] * X ** 2).sum(0) / sw.sum()
    if nm == "Logistic":
        return (X ** 2).sum(0) / (4 * n)
    if nm == "QuadraticSVC":
        y = np.array(case["y"], float)
        return ((y[:, None] * X) ** 2).sum(1)          # one per sample (columns of (yX)^T)
    return (X ** 2).sum(0) / n


def global_lipschitz(case):
    """exact global curvature bound of the loss in w (the step FISTA uses is 1 / (its estimate of this)); None = unknown.
    For sparse X the library's power-method value is <= this one (C09), i.e. its step is >= 1/L: since the
    prox-gradient residual of a convex problem is non-decreasing in the step, a residual <= tol at the library's
    step implies the residual at 1/L is <= tol as well (one-sided, sound)."""
    X = np.array(case["X"], float)
    n = X.shape[0]
    d = case["datafit"]
    nm = d["name"] if d else "Quadratic"
    if nm == "QuadraticSVC":
        y = np.array(case["y"], float)
        return float(np.linalg.norm(y[:, None] * X, 2) ** 2)
    if nm == "WeightedQuadratic":
        sw = np.array(d["sample_weights"], float)
        return float(np.linalg.norm(np.sqrt(sw)[:, None] * X, 2) ** 2 / sw.sum())
    if nm == "Logistic":
        return float(np.linalg.norm(X, 2) ** 2 / (4 * n))
    if nm in ("Quadratic", "Huber"):
        return float(np.linalg.norm(X, 2) ** 2 / n)
    return None


def null_gradient(case):
    """gradient of the loss at w = 0, b = 0 (scale for alpha)"""
    X = np.array(case["X"], float)
    y = np.array(case["y"], float)
    d = case["datafit"]
    if d is not None and d["name"] == "QuadraticSVC":
        return -np.ones(X.shape[0])
    loss = ref_loss(case)
    return X.T @ loss.grad(y, np.zeros(X.shape[0]))


def ref_loss(case):
    d = case["datafit"]
    if d is None:
        return R.Quadratic()
    return make_ref_datafit(d)


def make_ref_datafit(d):
    n = d["name"]
    if n == "WeightedQuadratic":
        return R.WeightedQuadratic(np.array(d["sample_weights"]))
    if n == "Huber":
        return R.Huber(d["delta"])
    if n == "Cox":
        return R.Cox(d["use_efron"])
    return {"Quadratic": R.Quadratic, "QuadraticGroup": R.Quadratic, "Logistic": R.Logistic,
            "LogisticGroup": R.Logistic, "Poisson": R.Poisson, "Gamma": R.Gamma,
            "SqrtQuadratic": R.SqrtQuadratic, "QuadraticMultiTask": R.QuadraticMultiTask}[n]()


@st.composite
def scalar_penalty_spec(draw, name, case, nvar):
    """hyper-parameters drawn *relative to the problem* (alpha = frac * alpha_max_ref, admissible gamma)."""
    spec = dict(name=name)
    if name == "PositiveConstraint":
        return spec
    if name == "IndicatorBox":
        spec["alpha"] = draw(st.sampled_from([.1, 1., 10., .5]))
        return spec
    wts = None
    if name in ("WeightedL1", "WeightedMCPenalty"):
        wts = draw(gen.weights(nvar))
        spec["weights"] = wts
    g0 = np.abs(null_gradient(case))
    if wts is not None:
        nz = np.array(wts) > 0
        amax = float(np.max(g0[nz] / np.array(wts)[nz])) if nz.any() else 1.
    else:
        amax = float(g0.max()) if len(g0) else 1.
    if not math.isfinite(amax) or amax <= 0:
        amax = 1.
    frac = draw(gen.frac_log(-3, .3, 33))
    spec["alpha"] = float(amax * frac)
    if name in ("L1", "WeightedL1", "L1_plus_L2", "MCPenalty", "WeightedMCPenalty"):
        spec["positive"] = draw(st.booleans())
    if name == "L1_plus_L2":
        spec["l1_ratio"] = draw(st.sampled_from([.5, .1, .9, 1., .01]))
    if name in ("MCPenalty", "WeightedMCPenalty", "SCAD"):
        L = coord_lipschitz(case)
        Lpos = L[L > 0]
        inv = float(1. / Lpos.min()) if len(Lpos) else 1.
        wmax = max(wts) if wts else 1.
        f = draw(st.sampled_from([1.1, 3., 30.]))
        spec["gamma"] = float(inv * max(wmax, 1.) * f + (1. if name == "SCAD" else 0.))
    if name == "LogSumPenalty":
        spec["eps"] = draw(gen.pos_float(-2, 0))
    return spec


@st.composite
def start_point(draw, nvar, fit_intercept, penalty_name, spec):
    """None, or a feasible coefficient vector with support size in {0, 1, few, many, all}."""
    if draw(st.integers(0, 2)) == 0:
        return None
    wts = spec.get("weights")
    if wts is not None and 0. in wts and draw(st.integers(0, 2)) == 0:
        # penalised features carry the support, unpenalised ones start at exactly 0: the union
        # (support + unpenalised) can then exceed the working-set size the solvers compute
        pen_idx = [j for j, v in enumerate(wts) if v != 0]
        k = draw(st.integers(1, len(pen_idx))) if pen_idx else 0
        w = [0.] * nvar
        for j in pen_idx[:k]:
            v = draw(gen.real(-1, 0, zero=0.))
            w[j] = abs(v) if spec.get("positive") else v
        if fit_intercept:
            w.append(draw(gen.real(-1, 0, zero=.3)))
        return dict(w=w, kind="penalised-only")
    kind = draw(st.sampled_from(["empty", "one", "few", "many", "all"]))
    k = {"empty": 0, "one": 1, "few": min(nvar, 3), "many": max(1, (2 * nvar) // 3), "all": nvar}[kind]
    idx = draw(st.permutations(list(range(nvar))))[:k]
    w = [0.] * nvar
    for j in idx:
        v = draw(gen.real(-1, 0, zero=0.))
        if spec.get("positive") or penalty_name in ("IndicatorBox", "PositiveConstraint"):
            v = abs(v)
        if penalty_name == "IndicatorBox":
            v = min(v, spec["alpha"])
        w[j] = v
    if fit_intercept:
        w.append(draw(gen.real(-1, 0, zero=.3)))
    return dict(w=w, kind=kind)


# ---------------------------------------------------------------------------------------------
# running a case
class Out:
    def __init__(self):
        self.w = self.obj = self.stop = self.exc = self.Xw = self.w_init = None
        self.warned = False


def build(case):
    """-> (Xin container, y, compiled datafit (initialised) or None, compiled penalty, solver, nvar, Xmat dense as the solver sees it)"""
    X = np.array(case["X"], float)
    y = np.array(case["y"], float)
    d = case["datafit"]
    if d is not None and d["name"] == "QuadraticSVC":
        Xeff = (y[:, None] * X).T
    else:
        Xeff = X
    Xin = to_container(Xeff, case.get("storage", "dense"))
    if d is None:
        df = None
    else:
        df = compiled(make_datafit(d)[0])
        init_datafit(df, Xin, y)
    pen = compiled(make_penalty(case["penalty"])[0])
    solver = make_solver(case["solver"])
    return Xin, y, df, pen, solver, Xeff


_seed_fn = None


def seed_numba(k=12345):
    """spectral_norm draws from numba's RNG; pin it so that runs are a pure function of the case."""
    global _seed_fn
    if _seed_fn is None:
        import numba

        @numba.njit
        def _s(v):
            np.random.seed(v)
        _seed_fn = _s
    _seed_fn(int(k))


def run(case, solver_override=None, explicit_zero=False):
    """Run the solver on the case. With explicit_zero=True a cold start is passed as explicit zero buffers
    (exactly what the solvers allocate themselves), so that the solver's final model-fit buffer is observable."""
    import warnings
    out = Out()
    try:
        Xin, y, df, pen, solver, Xeff = build(case)
    except Exception as e:  # noqa
        out.exc = e
        out.stage = "build"
        return out
    if solver_override:
        for k, v in solver_override.items():
            setattr(solver, k, v)
    name = case["solver"]["name"]
    fi = bool(getattr(solver, "fit_intercept", False)) and name not in ("GramCD", "FISTA", "LBFGS")
    w_init = Xw_init = None
    nvar = Xeff.shape[1]
    if case.get("init") is not None:
        w_init = np.array(case["init"]["w"], float)
        nv = w_init.shape[0] - (1 if fi else 0)
        Xw_init = np.asarray(Xeff @ w_init[:nv] + (w_init[-1] if fi else 0.), float)
    elif explicit_zero and name not in ("LBFGS",):
        yy = np.asarray(y)
        if name == "MultiTaskBCD":
            w_init = np.zeros((nvar + fi, yy.shape[1]))
            Xw_init = np.zeros((Xeff.shape[0], yy.shape[1]))
        else:
            w_init = np.zeros(nvar + fi)
            Xw_init = np.zeros(Xeff.shape[0])
    out.w_init, out.Xw = w_init, Xw_init
    out.stage = "solve"
    seed_numba()
    try:
        with warnings.catch_warnings():
            warnings.simplefilter("ignore")
            res = solver.solve(Xin, y, df, pen, w_init, Xw_init)
        out.w, out.obj, out.stop = np.asarray(res[0], float), np.asarray(res[1], float), float(res[2])
    except Exception as e:  # noqa
        out.exc = e
    return out


def run_observed(case):
    """Run the case; for cold starts additionally run with explicit zero buffers (bitwise-identical trajectory)
    to observe the solver's own final model-fit buffer. -> (out, Xw_buffer or None, mismatch flag)"""
    out = run(case)
    if out.exc is not None or case["solver"]["name"] in ("GramCD", "LBFGS", "FISTA"):
        return out, None, False
    if case.get("init") is not None:
        return out, out.Xw, False
    out2 = run(case, explicit_zero=True)
    if out2.exc is not None or out2.w.shape != out.w.shape:
        return out, None, True
    same = np.array_equal(out.w, out2.w) and (out.stop == out2.stop or (np.isnan(out.stop) and np.isnan(out2.stop)))
    return out, (out2.Xw if same else None), not same


def buffer_drift(case, w_full, Xw_buf, extra_scale=0.):
    """relative mismatch between the solver's model-fit buffer and X w + b recomputed from the returned w"""
    X = np.array(case["X"], float)
    y = np.array(case["y"], float)
    d = case["datafit"]
    name = case["solver"]["name"]
    w_full = np.asarray(w_full, float)
    if d is not None and d["name"] == "QuadraticSVC":
        X = (y[:, None] * X).T
    if name == "MultiTaskBCD":
        fi = bool(case["solver"]["fit_intercept"])
        W, B = (w_full[:-1], w_full[-1]) if fi else (w_full, 0.)
        true = X @ W + B
        sc = np.abs(X) @ np.abs(W) + np.abs(B)
    else:
        w, b, fi = split(case, w_full)
        true = X @ w + b
        sc = np.abs(X) @ np.abs(w) + abs(b)
    # relative to the size of the linear predictor, floored by the scale of the targets (a buffer that is
    # 1e-17 instead of 0 at w = 0 is round-off, not an inconsistency)
    den = float(np.max(sc)) + (float(np.max(np.abs(y))) if y.dtype.kind == "f" and y.size else 1.)
    if case.get("init") is not None:   # the trajectory started from a point of that size
        w0 = np.abs(np.array(case["init"]["w"], float))
        nv = X.shape[1]
        den += float(np.max(np.abs(X) @ w0[:nv])) + (float(np.max(w0[nv:])) if len(w0) > nv else 0.)
    den += 1e-300 + extra_scale      # extra_scale: largest |Xw| the same buffer held earlier in a history
    return float(np.max(np.abs(np.asarray(Xw_buf, float) - true))) / den, true


# ---------------------------------------------------------------------------------------------
# certificates recomputed from (X, y, w) alone
def ref_penalty(case):
    return make_penalty(case["penalty"])[1]


def split(case, w):
    """-> (coefficients, intercept, fit_intercept)"""
    s = case["solver"]
    fi = bool(s.get("fit_intercept", default_fit_intercept(s["name"]))) and s["name"] not in ("GramCD", "FISTA", "LBFGS")
    w = np.asarray(w, float)
    if fi:
        return w[:-1], w[-1], True
    return w, 0. * w[-1:].sum() if w.ndim == 1 else 0., False


def default_fit_intercept(name):
    return {"AndersonCD": True, "ProxNewton": True, "GramCD": True, "MultiTaskBCD": True,
            "GroupBCD": False, "GroupProxNewton": False}.get(name, False)


def eta_magnitude(case, X, w, b):
    """size of the terms summed into the linear predictor along the run (|X||w| + |b|, final and start point):
    round-off in the solver's incrementally updated Xw is relative to this, not to the (possibly cancelled) eta"""
    m = np.abs(X) @ np.abs(w) + abs(b)
    if case.get("init") is not None:
        w0 = np.abs(np.array(case["init"]["w"], float))
        if w0.ndim == 1:
            nv = X.shape[1]
            m = m + np.abs(X) @ w0[:nv] + (float(w0[nv]) if len(w0) > nv else 0.)
    return m


def grad_scale(case, X, y, eta, eta_mag=None):
    """natural cancellation scale of each component of the feature gradient (see C06): sizes of the terms that
    are subtracted in dloss/deta, plus curvature x magnitude of the predictor computation"""
    d = case["datafit"]
    n = X.shape[0]
    nm = d["name"] if d else "Quadratic"
    em = np.abs(eta) if eta_mag is None else np.maximum(eta_mag, np.abs(eta))
    if nm == "QuadraticSVC":
        return np.abs(X).T @ em + 1., 1.
    if nm in ("Quadratic", "QuadraticGroup", "Huber"):
        rs = (em + np.abs(y)) / n
    elif nm == "WeightedQuadratic":
        sw = np.array(d["sample_weights"])
        rs = sw / sw.sum() * (em + np.abs(y))
    elif nm == "Poisson":
        rs = (np.exp(eta) * (1 + em) + np.abs(y)) / n
    elif nm == "Gamma":
        rs = (1 + y * np.exp(-eta) * (1 + em)) / n
    elif nm == "Cox":
        rs = np.full(n, (1. + y[:, 1].sum()) / n) * (1 + em)
    else:
        rs = (1. + em / 4) / n
    return np.abs(X).T @ rs + 1e-300, float(rs.sum()) + 1e-300


def scalar_certificate(case, w_full, strategy="subdiff", impl_pen=None, eta_buf=None):
    """violation of first-order optimality at the returned point, recomputed independently.
    -> dict(feat=max feature violation (relative to tol check done by caller), icpt=..., vec=..., scale=..., obj=...)"""
    X = np.array(case["X"], float)
    y = np.array(case["y"], float)
    d = case["datafit"]
    pen = ref_penalty(case)
    w, b, fi = split(case, w_full)
    svc = d is not None and d["name"] == "QuadraticSVC"
    if svc:
        M = (y[:, None] * X).T
        theta = M @ w if eta_buf is None else np.asarray(eta_buf, float)
        g = M.T @ theta - 1.
        gs = np.abs(M).T @ np.maximum(np.abs(theta), eta_magnitude(case, M, w, 0.)) + 1.
        icpt, icpt_scale = 0., 1.
        obj = .5 * float(theta @ theta) - float(w.sum()) + pen.value(w)
        lips = (M ** 2).sum(0)
    else:
        loss = ref_loss(case)
        eta = X @ w + b if eta_buf is None else np.asarray(eta_buf, float)
        r = loss.grad(y, eta)
        g = X.T @ r
        gs, icpt_scale = grad_scale(case, X, y, eta, eta_magnitude(case, X, w, b))
        icpt = abs(float(r.sum())) if fi else 0.
        obj = loss.value(y, eta) + pen.value(w)
        lips = None
    p = len(w)
    if case["solver"]["name"] == "FISTA" and strategy != "subdiff":
        lips = np.full(p, global_lipschitz(case))     # one global step for every coordinate
    if strategy == "subdiff":
        v = np.array([pen.sdist(w[j], g[j], j) for j in range(p)])
    else:
        if lips is None:
            if case["solver"]["name"] == "FISTA":
                lips = np.full(len(w), global_lipschitz(case))
            elif case["solver"]["name"] == "ProxNewton":
                if isinstance(loss, R.Cox):     # documented diagonal upper bound of the Cox Hessian
                    hdiag = r + y[:, 1] / len(y)
                elif isinstance(loss, R.SqrtQuadratic):   # documented bound 1 / ||y - Xw||
                    hdiag = np.full(len(y), 1. / np.linalg.norm(y - eta))
                else:
                    hdiag = loss.hess(y, eta)
                lips = (hdiag[:, None] * X ** 2).sum(0)
            else:
                lips = coord_lipschitz(case)
        v = np.zeros(p)
        for j in range(p):
            if lips[j] == 0:
                continue
            s = 1. / lips[j]
            xj = w[j] - s * g[j]
            if pen.convex:
                u = R.prox_scalar_ref(pen, j, xj, s)
            else:
                u = float(impl_pen.prox_1d(float(xj), s, j))   # C07 is where the prox itself is judged
            v[j] = abs(w[j] - u)
            gs[j] = gs[j] * s + abs(w[j]) * 1e-6
    return dict(vec=v, feat=float(v.max()) if p else 0., icpt=icpt, gscale=gs, icpt_scale=icpt_scale, obj=obj, grad=g)


def objective(case, w_full, eta_buf=None):
    """true objective (intercept unpenalised; +inf if infeasible); eta_buf = the solver's own model-fit buffer
    to take the predictor from (removes round-off between X w and the incrementally updated buffer)"""
    X = np.array(case["X"], float)
    y = np.array(case["y"], float)
    d = case["datafit"]
    pen = ref_penalty(case)
    w, b, fi = split(case, w_full)
    if d is not None and d["name"] == "QuadraticSVC":
        th = (y[:, None] * X).T @ w if eta_buf is None else np.asarray(eta_buf, float)
        return .5 * float(th @ th) - float(w.sum()) + pen.value(w)
    eta = X @ w + b if eta_buf is None else np.asarray(eta_buf, float)
    return ref_loss(case).value(y, eta) + pen.value(w)


# =============================================================================================
# knobs
@st.composite
def solver_spec(draw, name, generous=None, fit_intercept=None, ws_strategy=None):
    """solver knobs; `generous` = True biases budgets so that convergence can be claimed."""
    gen_b = draw(st.integers(0, 9)) < 6 if generous is None else generous
    tol = draw(gen.tols())
    fi = draw(st.booleans()) if fit_intercept is None else fit_intercept
    ws = draw(st.sampled_from(["subdiff", "fixpoint"])) if ws_strategy is None else ws_strategy
    p0 = draw(st.sampled_from([1, 2, 3, 5, 10, 12]))
    if name == "AndersonCD":
        mi = draw(st.sampled_from([20, 50])) if gen_b else draw(gen.budgets_iter())
        me = draw(st.sampled_from([1000, 200, 50_000])) if gen_b else draw(gen.budgets_epochs())
        if me == 50_000 and tol < 1e-4:
            me = 1000
        return dict(name=name, max_iter=mi, max_epochs=me, p0=p0, tol=tol, ws_strategy=ws, fit_intercept=fi)
    if name == "ProxNewton":
        mi = draw(st.sampled_from([20, 50])) if gen_b else draw(gen.budgets_iter())
        mp = draw(st.sampled_from([1000, 100])) if gen_b else draw(st.sampled_from([1, 2, 3, 5, 10, 100]))
        return dict(name=name, max_iter=mi, max_pn_iter=mp, p0=p0, tol=tol, ws_strategy=ws, fit_intercept=fi)
    if name == "GramCD":
        mi = draw(st.sampled_from([100, 1000])) if gen_b else draw(st.sampled_from([0, 1, 2, 5, 6, 7, 8, 13, 14, 20]))
        return dict(name=name, max_iter=mi, use_acc=draw(st.booleans()), greedy_cd=draw(st.booleans()), tol=tol)
    if name == "GroupBCD":
        mi = draw(st.sampled_from([50, 200])) if gen_b else draw(gen.budgets_iter())
        me = draw(st.sampled_from([100, 1000])) if gen_b else draw(gen.budgets_epochs().filter(lambda v: v <= 1000))
        return dict(name=name, max_iter=mi, max_epochs=me, p0=p0, tol=tol, ws_strategy=ws, fit_intercept=fi)
    if name == "GroupProxNewton":
        mi = draw(st.sampled_from([20, 50])) if gen_b else draw(gen.budgets_iter())
        mp = draw(st.sampled_from([1000, 100])) if gen_b else draw(st.sampled_from([1, 2, 3, 5, 10, 100]))
        return dict(name=name, max_iter=mi, max_pn_iter=mp, p0=p0, tol=tol, fit_intercept=fi)
    if name == "MultiTaskBCD":
        mi = draw(st.sampled_from([20, 100])) if gen_b else draw(gen.budgets_iter())
        me = draw(st.sampled_from([1000, 200])) if gen_b else draw(gen.budgets_epochs().filter(lambda v: v <= 1000))
        return dict(name=name, max_iter=mi, max_epochs=me, p0=p0, tol=tol, ws_strategy=ws, fit_intercept=fi,
                    use_acc=draw(st.booleans()))
    if name == "LBFGS":
        mi = draw(st.sampled_from([200, 500])) if gen_b else draw(st.sampled_from([1, 2, 5, 20]))
        return dict(name=name, max_iter=mi, tol=tol)
    if name == "FISTA":
        mi = draw(st.sampled_from([500, 2000])) if gen_b else draw(st.sampled_from([0, 1, 2, 5, 20, 100]))
        return dict(name=name, max_iter=mi, tol=tol, opt_strategy=ws)
    raise KeyError(name)


STORAGES = ["dense", "csc", "C", "csc64"]


@st.composite
def scalar_case(draw, solver, fam, penalty, sizes=(2, 24, 1, 16), storage=None, generous=None,
                fit_intercept=None, ws_strategy=None, degenerate=True, starts=True):
    m = draw(gen.matrix(n_min=sizes[0], n_max=sizes[1], p_min=sizes[2], p_max=sizes[3], degenerate=degenerate))
    X = np.array(m["X"])
    case = dict(X=m["X"], flags=m["flags"])
    if solver == "GramCD":
        case["datafit"] = None
        case["y"] = draw(gen.planted_target(X)) if draw(st.booleans()) else draw(gen.real_target(X.shape[0]))
    else:
        case["datafit"], case["y"] = datafit_spec_and_target(draw, fam, X)
    nvar = X.shape[0] if fam == "QuadraticSVC" else X.shape[1]
    case["penalty"] = draw(scalar_penalty_spec(penalty, case, nvar))
    sv = draw(solver_spec(solver, generous, fit_intercept, ws_strategy))
    if fam == "QuadraticSVC" and "fit_intercept" in sv:
        sv["fit_intercept"] = False
    if solver == "ProxNewton" and fam in ("Poisson", "Gamma") or fam.startswith("Cox"):
        # keep exp() of the null predictor benign: these losses have no finite minimiser for some targets;
        # budget-limited runs are still fine, certificates only matter when convergence is claimed
        pass
    case["solver"] = sv
    st_choices = storage or (["dense", "csc"] if solver != "GroupProxNewton" else ["dense"])
    case["storage"] = draw(st.sampled_from(st_choices))
    fi = bool(sv.get("fit_intercept", False))
    if starts and solver not in ("LBFGS",):
        case["init"] = draw(start_point(nvar, fi, penalty, case["penalty"]))
    else:
        case["init"] = None
    return case


@st.composite
def group_case(draw, solver, fam, positive=None, sizes=(2, 20, 1, 12), storage=None, generous=None,
               fit_intercept=None, ws_strategy=None, starts=True):
    m = draw(gen.matrix(n_min=sizes[0], n_max=sizes[1], p_min=sizes[2], p_max=sizes[3]))
    X = np.array(m["X"])
    n, p = X.shape
    groups = draw(gen.partition(p))
    if len(groups) >= 2 and draw(st.integers(0, 3)) == 0:   # an all-zero group (zero block Lipschitz constant)
        gz = draw(st.integers(0, len(groups) - 1))
        X[:, groups[gz]] = 0.
        m["X"] = X.tolist()
        m["flags"].append("zero-group")
    case = dict(X=m["X"], flags=m["flags"])
    spec, y = datafit_spec_and_target(draw, fam, X)
    spec.update(groups=groups, n_features=p)
    case["datafit"], case["y"] = spec, y
    wts = draw(gen.weights(len(groups)))
    g0 = null_gradient(case)
    pos = draw(st.booleans()) if positive is None else positive
    norms = [np.linalg.norm(g0[g]) / w for g, w in zip(groups, wts) if w > 0]
    amax = max(norms) if norms and max(norms) > 0 else 1.
    case["penalty"] = dict(name="WeightedGroupL2", alpha=float(amax * draw(gen.frac_log(-3, .3, 33))), weights=wts,
                           groups=groups, n_features=p, positive=pos)
    case["solver"] = draw(solver_spec(solver, generous, fit_intercept, ws_strategy))
    case["storage"] = draw(st.sampled_from(storage or (["dense", "csc"] if (solver == "GroupBCD" and fam == "QuadraticGroup") else ["dense"])))
    fi = bool(case["solver"].get("fit_intercept", False))
    if starts and draw(st.integers(0, 2)) > 0:
        w = [0.] * p
        for g in groups:
            if draw(st.integers(0, 2)) == 0:
                for j in g:
                    v = draw(gen.real(-1, 0, zero=.2))
                    w[j] = abs(v) if pos else v
        if fi:
            w.append(draw(gen.real(-1, 0, zero=.3)))
        case["init"] = dict(w=w)
    else:
        case["init"] = None
    return case


@st.composite
def multitask_case(draw, penalty, sizes=(2, 20, 1, 12), storage=None, generous=None, fit_intercept=None,
                   ws_strategy=None, starts=True):
    m = draw(gen.matrix(n_min=sizes[0], n_max=sizes[1], p_min=sizes[2], p_max=sizes[3]))
    X = np.array(m["X"])
    n, p = X.shape
    T = draw(st.integers(1, 4))
    Wt = np.array([[draw(st.sampled_from([0., 0., 1., -1., 2.])) for _ in range(T)] for _ in range(p)])
    noise = np.array([[draw(st.integers(-1000, 1000)) / 1000. for _ in range(T)] for _ in range(n)])
    off = np.array([draw(st.sampled_from([0., 1., -2., 5.])) for _ in range(T)])
    Y = X @ Wt + noise + off
    case = dict(X=m["X"], flags=m["flags"], y=Y.tolist(), datafit=dict(name="QuadraticMultiTask"))
    G0 = X.T @ (-Y) / n
    amax = float(np.linalg.norm(G0, axis=1).max()) or 1.
    spec = dict(name=penalty, alpha=float(amax * draw(gen.frac_log(-3, .3, 33))))
    if penalty in ("BlockMCPenalty", "BlockSCAD"):
        L = (X ** 2).sum(0) / n
        Lpos = L[L > 0]
        inv = float(1. / Lpos.min()) if len(Lpos) else 1.
        spec["gamma"] = float(inv * draw(st.sampled_from([1.1, 3., 30.])) + (1. if penalty == "BlockSCAD" else 0.))
    case["penalty"] = spec
    case["solver"] = draw(solver_spec("MultiTaskBCD", generous, fit_intercept, ws_strategy))
    case["storage"] = draw(st.sampled_from(storage or ["dense", "csc"]))
    fi = case["solver"]["fit_intercept"]
    if starts and draw(st.integers(0, 2)) > 0:
        W = [[0.] * T for _ in range(p)]
        for j in range(p):
            if draw(st.integers(0, 2)) == 0:
                W[j] = [draw(gen.real(-1, 0, zero=.2)) for _ in range(T)]
        if fi:
            W.append([draw(gen.real(-1, 0, zero=.3)) for _ in range(T)])
        case["init"] = dict(w=W)
    else:
        case["init"] = None
    return case


# ---------------------------------------------------------------------------------------------
def group_certificate(case, w_full, eta_buf=None):
    X = np.array(case["X"], float)
    y = np.array(case["y"], float)
    pen = ref_penalty(case)
    loss = ref_loss(case)
    w, b, fi = split(case, w_full)
    eta = X @ w + b if eta_buf is None else np.asarray(eta_buf, float)
    r = loss.grad(y, eta)
    g = X.T @ r
    gs, icpt_scale = grad_scale(case, X, y, eta, eta_magnitude(case, X, w, b))
    v = pen.sdist_all(w, g)
    gsc = np.array([np.linalg.norm(gs[idx]) for idx in pen.groups])
    return dict(vec=v, feat=float(v.max()) if len(v) else 0., icpt=abs(float(r.sum())) if fi else 0.,
                gscale=gsc, icpt_scale=icpt_scale, obj=loss.value(y, eta) + pen.value(w), grad=g)


def group_fixpoint_vec(case, w_full, lips, eta_buf=None):
    """|w_g - prox(w_g - grad_g/L_g)| with the documented group constants, recomputed independently"""
    X = np.array(case["X"], float)
    y = np.array(case["y"], float)
    pen = ref_penalty(case)
    loss = ref_loss(case)
    w, b, fi = split(case, w_full)
    g = X.T @ loss.grad(y, X @ w + b if eta_buf is None else np.asarray(eta_buf, float))
    out = np.zeros(len(pen.groups))
    for k, idx in enumerate(pen.groups):
        if lips[k] == 0:
            continue
        a = pen.alpha * pen.weights[k] / lips[k]
        x = w[idx] - g[idx] / lips[k]
        xx = np.maximum(x, 0) if pen.positive else x
        nr = np.linalg.norm(xx)
        pr = np.zeros_like(x) if nr <= a else (1 - a / nr) * xx
        out[k] = np.linalg.norm(w[idx] - pr)
    return out


def group_lipschitz(case):
    X = np.array(case["X"], float)
    n = X.shape[0]
    c = 4. if case["datafit"]["name"] == "LogisticGroup" else 1.
    return np.array([np.linalg.norm(X[:, g], 2) ** 2 / (c * n) if len(g) else 0. for g in case["penalty"]["groups"]])


def multitask_certificate(case, W_full, eta_buf=None):
    X = np.array(case["X"], float)
    Y = np.array(case["y"], float)
    n = X.shape[0]
    pen = ref_penalty(case)
    W_full = np.asarray(W_full, float)
    fi = bool(case["solver"]["fit_intercept"])
    W, B = (W_full[:-1], W_full[-1]) if fi else (W_full, 0.)
    E = X @ W + B if eta_buf is None else np.asarray(eta_buf, float)
    Rr = (E - Y) / n
    G = X.T @ Rr
    v = np.array([pen.block_sdist(W[j], G[j], j) for j in range(W.shape[0])])
    em = np.abs(X) @ np.abs(W) + np.abs(B)
    if case.get("init") is not None:
        W0 = np.abs(np.array(case["init"]["w"], float))
        em = em + np.abs(X) @ W0[:X.shape[1]] + (W0[-1] if fi else 0.)
    E_mag = np.maximum(np.abs(E), em)
    gs = np.abs(X).T @ ((E_mag + np.abs(Y)) / n) + 1e-300
    return dict(vec=v, feat=float(v.max()) if len(v) else 0., icpt=float(np.abs(Rr.sum(0)).max()) if fi else 0.,
                gscale=np.linalg.norm(gs, axis=1), icpt_scale=float(((E_mag + np.abs(Y)) / n).sum(0).max()) + 1e-300,
                obj=float(((E - Y) ** 2).sum() / (2 * n)) + pen.value(W), grad=G)


def multitask_objective(case, W_full, eta_buf=None):
    X = np.array(case["X"], float)
    Y = np.array(case["y"], float)
    W_full = np.asarray(W_full, float)
    fi = bool(case["solver"]["fit_intercept"])
    W, B = (W_full[:-1], W_full[-1]) if fi else (W_full, 0.)
    E = X @ W + B if eta_buf is None else np.asarray(eta_buf, float)
    return float(((Y - E) ** 2).sum() / (2 * X.shape[0])) + ref_penalty(case).value(W)


def unsorted_groups(case):
    """root-cause label: the group layout is not the identity ordering (KF-GPN-UNSORTED-GROUPS)"""
    g = case["penalty"].get("groups")
    if not g:
        return False
    flat = [j for grp in g for j in grp]
    return flat != list(range(len(flat)))


@st.composite
def svc_extrapolation_case(draw):
    """LinearSVC dual (QuadraticSVC + IndicatorBox) shaped so that Anderson extrapolations are computed on many
    interior dual variables and the budget ends exactly on an extrapolation step (epochs 7, 14, 21 with K = 5)."""
    n = draw(st.integers(16, 40))
    p = draw(st.integers(3, 10))
    K = draw(gen.hnp.arrays(np.int16, (n, p), elements=st.integers(-3000, 3000)))
    X = K.astype(float) / 1000.
    y = draw(gen.planted_sign_target(X))
    return dict(X=X.tolist(), y=y, flags=["generic", "svc-extrapolation"], datafit=dict(name="QuadraticSVC"),
                penalty=dict(name="IndicatorBox", alpha=draw(st.sampled_from([.1, 1., 10.]))),
                solver=dict(name="AndersonCD", max_iter=draw(st.sampled_from([1, 1, 2])), max_epochs=draw(st.sampled_from([7, 14, 21, 6, 8])),
                            p0=draw(st.sampled_from([10, 40])), tol=1e-12, ws_strategy=draw(st.sampled_from(["subdiff", "fixpoint"])),
                            fit_intercept=False),
                storage=draw(st.sampled_from(["dense", "csc"])), init=None)
