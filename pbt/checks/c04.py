"""C04 -- constraints hold and output is finite at every stopping point."""
import math

import numpy as np
from hypothesis import strategies as st

from .. import gen, problems as P
from ..common import Viol, result, bootstrap

PROPERTY = "C04"
RULE = ("one case = a composition whose penalty carries a constraint (positive=True on L1 / WeightedL1 / L1_plus_L2 / "
        "MCPenalty / WeightedMCPenalty / WeightedGroupL2, IndicatorBox, PositiveConstraint) or an estimator with "
        "positive=True / LinearSVC, generated data, budgets biased to the extrapolation period (max_epochs in "
        "{5,6,7,8,12,13,14}, GramCD max_iter likewise), loose and tight tolerances, small max_iter, feasible warm "
        "starts. Oracle: the returned vector is exactly feasible (w_j >= 0, or 0 <= w_j <= C: proxes are exact "
        "projections so no tolerance), every returned coefficient / intercept is finite, and stop_crit is finite once "
        "an outer iteration ran. Non-trivial: the run stopped on its budget (no convergence claim) or its inner budget "
        "ends within one epoch of an extrapolation step.")
ASSUMPTIONS = ["warm starts are feasible (the documented contract for constrained penalties)"]

COMPS = [
    ("scalar", "AndersonCD", "Quadratic", "L1"), ("scalar", "AndersonCD", "Quadratic", "WeightedL1"),
    ("scalar", "AndersonCD", "Logistic", "L1_plus_L2"), ("scalar", "AndersonCD", "Quadratic", "MCPenalty"),
    ("scalar", "AndersonCD", "Huber", "WeightedMCPenalty"), ("scalar", "AndersonCD", "Quadratic", "PositiveConstraint"),
    ("scalar", "AndersonCD", "QuadraticSVC", "IndicatorBox"), ("scalar", "AndersonCD", "Quadratic", "IndicatorBox"),
    ("scalar", "AndersonCD", "Logistic", "L1"), ("scalar", "AndersonCD", "WeightedQuadratic", "L1_plus_L2"),
    ("scalar", "ProxNewton", "Logistic", "L1"), ("scalar", "ProxNewton", "Poisson", "L1_plus_L2"),
    ("scalar", "ProxNewton", "Quadratic", "WeightedL1"), ("scalar", "ProxNewton", "Logistic", "PositiveConstraint"),
    ("scalar", "GramCD", "Quadratic", "L1"), ("scalar", "GramCD", "Quadratic", "WeightedL1"), ("scalar", "GramCD", "Quadratic", "MCPenalty"),
    ("scalar", "FISTA", "Quadratic", "L1"), ("scalar", "FISTA", "QuadraticSVC", "IndicatorBox"),
    ("group", "GroupBCD", "QuadraticGroup", "WeightedGroupL2"), ("group", "GroupBCD", "LogisticGroup", "WeightedGroupL2"),
    ("group", "GroupProxNewton", "LogisticGroup", "WeightedGroupL2"),
]
ESTIMATORS = ["Lasso", "WeightedLasso", "ElasticNet", "MCPRegression", "GroupLasso", "LinearSVC"]
QUICK = {0, 1, 2, 3, 5, 6, 8, 10, 12, 14, 15, 17, 19, 20, 21}


def shards(tier):
    n = 200 if tier == "quick" else 1000
    out = []
    for i, (k, s, f, p) in enumerate(COMPS):
        if tier == "quick" and i not in QUICK:
            continue
        nn = n * 4 if f == "QuadraticSVC" else n     # cheap shard, rare event (an extrapolated dual that undershoots 0)
        out.append(dict(id=f"{s}-{f}-{p}", kind=k, solver=s, fam=f, pen=p, n=nn, cost=nn * (3 if k != "scalar" else 1)))
    out += [dict(id=f"est-{e}", kind="estimator", est=e, n=n // 2, cost=n * 2) for e in ESTIMATORS]
    return out


@st.composite
def constrained(draw, base, solver):
    case = draw(base)
    pen = case["penalty"]
    if "positive" in pen or pen["name"] in ("L1", "WeightedL1", "L1_plus_L2", "MCPenalty", "WeightedMCPenalty"):
        pen["positive"] = True
    if case.get("init") is not None and pen["name"] != "IndicatorBox":
        w0 = case["init"]["w"]
        nv = len(w0) - (1 if case["solver"].get("fit_intercept") and solver not in ("GramCD", "FISTA") else 0)
        case["init"]["w"] = [abs(v) if j < nv else v for j, v in enumerate(w0)]
    s = case["solver"]
    if draw(st.integers(0, 3)) > 0:      # budgets bracketing the extrapolation step
        if "max_epochs" in s:
            s["max_epochs"] = draw(st.sampled_from([5, 6, 7, 8, 12, 13, 14]))
            s["max_iter"] = draw(st.sampled_from([1, 2, 3]))
        if solver == "GramCD":
            s["max_iter"] = draw(st.sampled_from([5, 6, 7, 8, 12, 13, 14]))
            s["use_acc"], s["greedy_cd"] = True, draw(st.booleans())
        if "max_pn_iter" in s:
            s["max_pn_iter"] = draw(st.sampled_from([1, 2, 3, 5]))
            s["max_iter"] = draw(st.sampled_from([1, 2, 3]))
    return case


@st.composite
def estimator_case(draw, est):
    m = draw(gen.matrix(n_min=4, n_max=16, p_min=2, p_max=8))
    X = np.array(m["X"])
    n, p = X.shape
    case = dict(kind="estimator", est=est, X=m["X"], flags=m["flags"], max_iter=draw(st.sampled_from([1, 2, 3, 50])),
                max_epochs=draw(st.sampled_from([5, 6, 7, 8, 13, 14, 1000])), tol=draw(st.sampled_from([1e-1, 1e-3, 1e-6])),
                fit_intercept=draw(st.booleans()), frac=draw(st.sampled_from([.01, .1, .5])), storage=draw(st.sampled_from(["dense", "csc"])),
                p0=draw(st.sampled_from([1, 2, 10])), ws_strategy=draw(st.sampled_from(["subdiff", "fixpoint"])))
    if est == "LinearSVC":
        case["y"] = draw(gen.sign_target(n))
        case["C"] = draw(st.sampled_from([.1, 1., 10.]))
    else:
        case["y"] = draw(gen.planted_target(X))
    if est == "WeightedLasso":
        case["weights"] = draw(gen.weights(p))
    if est == "GroupLasso":
        case["groups"] = draw(gen.partition(p, max_groups=4))
        case["gweights"] = draw(gen.weights(len(case["groups"])))
    return case


def strategy(shard):
    if shard["kind"] == "estimator":
        return estimator_case(shard["est"])
    s = shard["solver"]
    if shard["kind"] == "scalar":
        # the SVC dual has one variable per sample: use taller data so that extrapolated duals can undershoot 0
        sizes = (8, 40, 2, 10) if shard["fam"] == "QuadraticSVC" else (3, 16, 1, 10)
        base = constrained(P.scalar_case(s, shard["fam"], shard["pen"], sizes=sizes), s)
        if shard["fam"] == "QuadraticSVC" and s == "AndersonCD":
            return st.one_of(base, P.svc_extrapolation_case())
        return base
    return constrained(P.group_case(s, shard["fam"], positive=True), s)


def feasibility(pen, w):
    """-> None if feasible, else a message"""
    name = pen["name"]
    w = np.asarray(w, float)
    if name == "IndicatorBox":
        C = pen["alpha"]
        if np.any(w < 0) or np.any(w > C):
            j = int(np.argmax(np.maximum(-w, w - C)))
            return f"w[{j}] = {w[j]!r} outside [0, {C}]"
        return None
    if name == "PositiveConstraint" or pen.get("positive"):
        if np.any(w < 0):
            j = int(np.argmin(w))
            return f"w[{j}] = {w[j]!r} < 0"
    return None


def check_case(case):
    bootstrap()
    if case.get("kind") == "estimator":
        return check_estimator(case)
    s = case["solver"]
    name = s["name"]
    sig = dict(solver=name, datafit=(case["datafit"] or {}).get("name", "None"), penalty=case["penalty"]["name"], storage=case["storage"])
    out = P.run(case)
    classes = [name]
    if out.exc is not None:
        return result([], False, classes + [f"exception:{type(out.exc).__name__}(C13)"])
    viol = []
    w_full = np.asarray(out.w, float)
    coef, b, fi = P.split(case, w_full) if w_full.ndim == 1 else (w_full, 0., False)
    if not np.all(np.isfinite(w_full)):
        from .c01 import wild_newton_step
        viol.append(Viol(dict(sig, kind="non-finite", what="coefficients", wild_newton_step=wild_newton_step(case, out)),
                         f"{name}: non-finite coefficients / intercept {w_full.tolist()}"))
    else:
        msg = feasibility(case["penalty"], coef)
        if msg:
            near = s.get("max_epochs") in (6, 7, 8, 12, 13, 14) or (name == "GramCD" and s.get("max_iter") in (6, 7, 8, 12, 13, 14))
            viol.append(Viol(dict(sig, kind="infeasible", after_extrapolation_budget=bool(near)),
                             f"{name} x {case['penalty']['name']}: returned {msg} (budget max_iter={s.get('max_iter')}, "
                             f"max_epochs={s.get('max_epochs', s.get('max_pn_iter'))}, tol={s['tol']:g})"))
    n_iter = len(out.obj)
    overflow_start = False
    if n_iter >= 1 and not math.isfinite(out.stop) and case.get("init") is not None:
        # a user-supplied start whose loss already overflows (Poisson: exp(1005) = inf) has an infinite gradient:
        # the criterion measured there is truthfully inf
        from .c03 import start_point, F_of
        with np.errstate(all="ignore"):
            overflow_start = not math.isfinite(F_of(case, start_point(case)))
        if overflow_start:
            classes.append("loss-overflows-at-start")
    if n_iter >= 1 and not math.isfinite(out.stop) and np.all(np.isfinite(w_full)) and not overflow_start:
        viol.append(Viol(dict(sig, kind="non-finite", what="stop_crit"), f"{name}: stop_crit={out.stop!r} after {n_iter} outer iterations"))
    tol = s["tol"]
    claims = out.stop < tol if name == "FISTA" else out.stop <= tol
    near = s.get("max_epochs") in (6, 7, 8, 12, 13, 14) or (name == "GramCD" and s.get("max_iter") in (6, 7, 8, 12, 13, 14))
    classes += ["claims-convergence" if claims else "budget-exhausted"] + (["extrapolation-budget"] if near else []) + (["warm"] if case.get("init") else ["cold"])
    return result(viol, (not claims) or near, classes)


def check_estimator(case):
    import warnings
    import skglm
    from scipy import sparse
    est = case["est"]
    X = np.array(case["X"], float)
    y = np.array(case["y"], float)
    n, p = X.shape
    Xin = sparse.csc_matrix(X) if case["storage"] == "csc" else X
    fi = case["fit_intercept"]
    amax = np.abs(X.T @ (y - y.mean() * fi)).max() / n if est != "LinearSVC" else 1.
    alpha = float(amax * case["frac"]) or 1.
    kw = dict(max_iter=case["max_iter"], max_epochs=case["max_epochs"], tol=case["tol"], p0=case["p0"], ws_strategy=case["ws_strategy"])
    if est == "Lasso":
        m = skglm.Lasso(alpha=alpha, positive=True, fit_intercept=fi, **kw)
    elif est == "WeightedLasso":
        m = skglm.WeightedLasso(alpha=alpha, weights=np.array(case["weights"]), positive=True, fit_intercept=fi, **kw)
    elif est == "ElasticNet":
        m = skglm.ElasticNet(alpha=alpha, l1_ratio=.5, positive=True, fit_intercept=fi, **kw)
    elif est == "MCPRegression":
        L = (X ** 2).sum(0) / n
        g = float(3. / L[L > 0].min() + 1) if (L > 0).any() else 3.
        m = skglm.MCPRegression(alpha=alpha, gamma=g, positive=True, fit_intercept=fi, **kw)
    elif est == "GroupLasso":
        kw.pop("max_epochs")
        m = skglm.GroupLasso(groups=case["groups"], alpha=alpha, weights=np.array(case["gweights"]), positive=True, fit_intercept=fi, **kw)
    else:
        kw.pop("ws_strategy")
        m = skglm.LinearSVC(C=case["C"], fit_intercept=False, **kw)
    sig = dict(estimator=est, storage=case["storage"])
    try:
        with warnings.catch_warnings():
            warnings.simplefilter("ignore")
            m.fit(Xin, y)
    except Exception as e:  # noqa
        return result([], False, [est, f"exception:{type(e).__name__}(C10/C11)"])
    viol = []
    coef = np.asarray(m.coef_, float)
    if not (np.all(np.isfinite(coef)) and np.all(np.isfinite(np.asarray(m.intercept_, float)))):
        viol.append(Viol(dict(sig, kind="non-finite"), f"{est}: non-finite coef_/intercept_"))
    elif est == "LinearSVC":
        d = np.asarray(m.dual_coef_, float)
        if np.any(d < 0) or np.any(d > case["C"]):
            viol.append(Viol(dict(sig, kind="infeasible"), f"LinearSVC: dual_coef_ outside [0, C={case['C']}]: min {d.min()!r} max {d.max()!r}"))
    elif np.any(coef < 0):
        viol.append(Viol(dict(sig, kind="infeasible"), f"{est}(positive=True): coef_ has a negative entry {coef.min()!r} "
                         f"(max_iter={case['max_iter']}, max_epochs={case['max_epochs']}, tol={case['tol']:g})"))
    stop = float(getattr(m, "stop_crit_", np.nan))
    claims = stop <= case["tol"]
    near = case["max_epochs"] in (6, 7, 8, 13, 14)
    return result(viol, (not claims) or near, [est, "claims-convergence" if claims else "budget-exhausted"] + (["extrapolation-budget"] if near else []))
