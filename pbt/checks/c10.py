"""C10 -- results do not depend on how X is stored; unsupported storage is refused with an explanation."""
import math
import warnings

import numpy as np
from hypothesis import strategies as st

from .. import gen, problems as P, metamorph as M
from ..common import Viol, result, bootstrap
from . import c13

PROPERTY = "C10"
RULE = ("one case = one generated convex problem presented in several containers: solver level -- Fortran dense "
        "(reference), C-ordered dense, CSC with int32 and with int64 index arrays; estimator level -- ndarray (F / C), "
        "CSC, CSR, list of lists, float32. Every container is solved cold at a tight tolerance. Oracle "
        "(differential): an accepted container gives the same objective within the subgradient-inequality margin and "
        "the same coefficients within the strong-convexity bound (float32: objective within 1e-3 relative + 1e-4 of "
        "the null-model objective, at tol 1e-4); a container that is not supported must raise AttributeError / ValueError / TypeError whose text "
        "explains the missing sparse support -- a numba TypingError, any other exception, or a silently different "
        "answer is a violation. Non-trivial: >= 2 containers accepted and the solution has mixed support.")
ASSUMPTIONS = ["convex compositions only; non-converged solves are inconclusive", "sparse containers are canonical CSC / CSR built by scipy from the dense matrix"]

SOLVER_COMPS = [
    ("scalar", "AndersonCD", "Quadratic", "L1"), ("scalar", "AndersonCD", "Logistic", "WeightedL1"),
    ("scalar", "AndersonCD", "WeightedQuadratic", "L1_plus_L2"), ("scalar", "AndersonCD", "Huber", "L1"),
    ("scalar", "AndersonCD", "QuadraticSVC", "IndicatorBox"),
    ("scalar", "ProxNewton", "Logistic", "L1"), ("scalar", "ProxNewton", "Poisson", "L1"), ("scalar", "ProxNewton", "Quadratic", "WeightedL1"),
    ("scalar", "ProxNewton", "Cox-efron", "L1"),
    ("scalar", "GramCD", "Quadratic", "L1"), ("scalar", "FISTA", "Quadratic", "L1"), ("scalar", "FISTA", "Logistic", "L1_plus_L2"),
    ("scalar", "FISTA", "Cox-breslow", "L1"),
    ("scalar", "LBFGS", "Logistic", "L2"), ("scalar", "LBFGS", "Quadratic", "L2"), ("scalar", "LBFGS", "Cox-efron", "L2"),
    ("group", "GroupBCD", "QuadraticGroup", "WeightedGroupL2"), ("group", "GroupBCD", "LogisticGroup", "WeightedGroupL2"),
    ("group", "GroupProxNewton", "LogisticGroup", "WeightedGroupL2"),
    ("multitask", "MultiTaskBCD", "QuadraticMultiTask", "L2_1"),
]
ESTIMATORS = ["Lasso", "ElasticNet", "WeightedLasso", "GroupLasso", "MultiTaskLasso", "SparseLogisticRegression", "LinearSVC"]
QUICK = {0, 1, 2, 3, 4, 5, 6, 7, 8, 9, 10, 12, 13, 14, 16, 17, 19}
CONTAINERS = ["C", "csc", "csc64"]
EST_CONTAINERS = ["C", "csc", "csr", "list", "float32"]
SPARSE_EXPLAIN = c13.EXPLAIN


def shards(tier):
    n = 50 if tier == "quick" else 300
    out = []
    for i, (k, s, f, p) in enumerate(SOLVER_COMPS):
        if tier == "quick" and i not in QUICK:
            continue
        out.append(dict(id=f"{s}-{f}-{p}", kind=k, solver=s, fam=f, pen=p, n=n, cost=n * (4 if k != "scalar" else 2)))
    out += [dict(id=f"est-{e}", kind="estimator", est=e, n=max(20, n // 2), cost=n * 3) for e in ESTIMATORS]
    return out


@st.composite
def solver_case(draw, shard):
    kind, solver, fam, pen = shard["kind"], shard["solver"], shard["fam"], shard["pen"]
    sizes = (4, 14, 2, 8)
    if kind == "scalar":
        if solver in ("FISTA", "LBFGS"):
            case = draw(P.scalar_case("AndersonCD", fam if fam in P.CD_DATAFITS else "Quadratic", "L1", sizes=sizes, starts=False))
            X = np.array(case["X"])
            if fam not in P.CD_DATAFITS:
                case["datafit"], case["y"] = P.datafit_spec_and_target(draw, fam, X)
            if pen == "L2":
                case["penalty"] = dict(name="L2", alpha=draw(gen.pos_float(-3, 0)))
                case["solver"] = dict(name="LBFGS", max_iter=500, tol=1e-9)
            else:
                case["penalty"] = draw(P.scalar_penalty_spec(pen, case, X.shape[1]))
                case["penalty"]["positive"] = False
                case["solver"] = dict(name="FISTA", max_iter=100, tol=1e-9, opt_strategy="subdiff")
        else:
            case = draw(P.scalar_case(solver, fam, pen, sizes=sizes, starts=False))
    elif kind == "group":
        case = draw(P.group_case(solver, fam, sizes=sizes, starts=False))
    else:
        case = draw(P.multitask_case(pen, sizes=sizes, starts=False))
    if fam in ("Logistic", "LogisticGroup", "Poisson") or fam.startswith("Cox"):
        for key in ("weights",):
            if key in case["penalty"]:
                case["penalty"][key] = [w if w > 0 else .5 for w in case["penalty"][key]]
        if "fit_intercept" in case["solver"]:
            case["solver"]["fit_intercept"] = False
    if draw(st.integers(0, 4)) == 0 and fam != "QuadraticSVC":
        # contrast (sum-to-zero) coding on a dyadic grid: every column sums to exactly zero in floating point
        Xz = np.round(np.array(case["X"], float) * 2) / 2
        if Xz.shape[0] >= 3:
            Xz[-1, :] = -Xz[:-1, :].sum(axis=0)
            for j in range(Xz.shape[1]):
                if not Xz[:, j].any():
                    Xz[0, j], Xz[1, j] = 1., -1.
            case["X"] = Xz.tolist()
            case["flags"] = case.get("flags", []) + ["zero-sum-cols"]
    case["init"] = None
    case["storage"] = "dense"
    return case


@st.composite
def estimator_case(draw, est):
    m = draw(gen.matrix(n_min=4, n_max=14, p_min=2, p_max=8, degenerate=True, scales=False))
    X = np.array(m["X"])
    n, p = X.shape
    case = dict(kind="estimator", est=est, X=m["X"], flags=m["flags"], fit_intercept=draw(st.booleans()), frac=draw(st.sampled_from([.05, .2, .6])))
    if est in ("SparseLogisticRegression", "LinearSVC"):
        case["y"] = draw(gen.planted_sign_target(X))
        if est == "LinearSVC":
            case["C"] = draw(st.sampled_from([.1, 1.]))
    elif est == "MultiTaskLasso":
        T = draw(st.integers(1, 3))
        case["y"] = [[draw(gen.real(-1, 0)) + i % 2 for _ in range(T)] for i in range(n)]
    else:
        case["y"] = draw(gen.planted_target(X))
    if est == "WeightedLasso":
        case["weights"] = [w if w > 0 else .5 for w in draw(gen.weights(p))]
    if est == "GroupLasso":
        case["groups"] = draw(gen.partition(p, max_groups=4))
    return case


def strategy(shard):
    return estimator_case(shard["est"]) if shard["kind"] == "estimator" else solver_case(shard)


def explanatory(e):
    msg = str(e)
    return isinstance(e, (AttributeError, ValueError, TypeError)) and bool(SPARSE_EXPLAIN.search(msg) or "sparse" in msg.lower()) and "broadcast" not in msg \
        and type(e).__name__ not in ("TypingError",)


def check_case(case):
    bootstrap()
    if case.get("kind") == "estimator":
        return check_estimator(case)
    s = case["solver"]
    name = s["name"]
    sig = dict(solver=name, datafit=(case["datafit"] or {}).get("name", "None"), penalty=case["penalty"]["name"], fit_intercept=bool(s.get("fit_intercept", False)))
    classes = [name]
    ref = M.tight(dict(case, storage="dense"))
    o_ref, st_ref = M.converged(ref)
    if st_ref == "exception":
        return result([], False, classes + [f"reference-exception:{type(o_ref.exc).__name__}(C13)"])
    conts = list(CONTAINERS)
    if st_ref != "ok":
        # the Fortran-dense run is not privileged: if the CSC run of the same problem converges, it is the reference
        # and the dense container is the one under judgement
        alt = dict(ref, storage="csc")
        o_alt, st_alt = M.converged(alt)
        if st_alt != "ok":
            return result([], False, classes + ["reference-not-converged(inconclusive)"])
        ref, o_ref = alt, o_alt
        conts = ["dense", "C", "csc64"]
        classes.append("csc-as-reference")
    tol = ref["solver"]["tol"]
    viol = []
    accepted = 1
    for cont in conts:
        c2 = dict(ref, storage=cont)
        o2, st2 = M.converged(c2)
        sg = dict(sig, container=cont)
        if st2 == "exception":
            if explanatory(o2.exc):
                classes.append(f"refused:{cont}")
                continue
            viol.append(Viol(dict(sg, kind="unexplained-failure", exc=type(o2.exc).__name__),
                             f"{name} on a {cont} container raises {type(o2.exc).__name__}: {str(o2.exc)[:200]!r} while the Fortran-dense container solves"))
            continue
        if st2 != "ok":
            if o2.w is not None and not np.all(np.isfinite(np.asarray(o2.w, float))):
                viol.append(Viol(dict(sg, kind="non-finite-on-container"),
                                 f"{name} on a {cont} container returns non-finite coefficients while the Fortran-dense container converges"))
            else:
                # no time/iteration oracle -- but a descent solver that ends ABOVE the objective it started from, on
                # a problem the Fortran-dense container solves to 1e-9 with the same budget, returned a different answer
                from .c03 import start_point
                Fs, Fb, Fa = M.F_of(ref, start_point(ref)), M.F_of(ref, o2.w) if o2.w is not None else np.nan, M.F_of(ref, o_ref.w)
                if name not in ("FISTA", "LBFGS") and np.isfinite(Fs) and np.isfinite(Fb) and Fb > Fs + 1e-6 * (abs(Fs) + abs(Fa)):
                    viol.append(Viol(dict(sg, kind="diverges-on-container"),
                                     f"{name} on a {cont} container does not converge and returns objective {Fb!r}, above the start "
                                     f"({Fs!r}); the reference container converges to {Fa!r}"))
                elif np.isfinite(Fs) and np.isfinite(Fb) and Fs - Fa > 1e-6 * (abs(Fs) + abs(Fa)) and Fb - Fa > .1 * (Fs - Fa):
                    # same algorithm, same tight budget: the reference container removes all of the initial
                    # sub-optimality (to 1e-9), this one keeps more than a tenth of it (a frozen coordinate, not slowness:
                    # slow designs are slow in every container)
                    viol.append(Viol(dict(sg, kind="stalls-on-container"),
                                     f"{name} on a {cont} container does not converge: objective {Fb!r} after the full budget (start {Fs!r}) "
                                     f"while the Fortran-dense container converges to {Fa!r}"))
                else:
                    classes.append(f"not-converged:{cont}(inconclusive)")
            continue
        accepted += 1
        factor = 4. if name == "FISTA" else 2.
        viol += M.compare(ref, o_ref.w, o2.w, tol, f"{name} on {cont} vs Fortran-dense", sg, Viol, factor=factor)
    w = np.asarray(o_ref.w, float)
    p = np.array(case["X"]).shape[1]
    nv = min(p, w.shape[0])
    supp = np.abs(w[:nv]).reshape(nv, -1).sum(1) != 0
    return result(viol, accepted >= 2 and bool(supp.any() and (~supp).any()), classes + [f"accepted={accepted}"])


# ---------------------------------------------------------------------------------------------
def build_estimator(case, tol):
    import skglm
    est = case["est"]
    X = np.array(case["X"], float)
    y = np.array(case["y"], float)
    n, p = X.shape
    fi = case["fit_intercept"]
    if est == "MultiTaskLasso":
        amax = np.linalg.norm(X.T @ (y - y.mean(0) * fi), axis=1).max() / n
    elif est == "SparseLogisticRegression":
        amax = np.abs(X.T @ y).max() / (2 * n)
    else:
        amax = np.abs(X.T @ (y - y.mean() * fi)).max() / n
    alpha = float(amax * case["frac"]) or 1.
    kw = dict(alpha=alpha, tol=tol, fit_intercept=fi, max_iter=200)
    if est in ("Lasso", "ElasticNet", "WeightedLasso", "GroupLasso", "MultiTaskLasso"):
        kw["max_epochs"] = 2000     # bound the cost of ill-conditioned (duplicated-column) cases; non-converged = inconclusive
    if est == "Lasso":
        return skglm.Lasso(**kw), alpha
    if est == "ElasticNet":
        return skglm.ElasticNet(l1_ratio=.5, **kw), alpha
    if est == "WeightedLasso":
        return skglm.WeightedLasso(weights=np.array(case["weights"]), **kw), alpha
    if est == "GroupLasso":
        return skglm.GroupLasso(groups=case["groups"], **kw), alpha
    if est == "MultiTaskLasso":
        return skglm.MultiTaskLasso(**kw), alpha
    if est == "SparseLogisticRegression":
        return skglm.SparseLogisticRegression(**kw), alpha
    return skglm.LinearSVC(C=case["C"], tol=tol, fit_intercept=False, max_iter=200), case["C"]


def est_problem_case(case, alpha):
    from .c05 import EST_MAP
    est = case["est"]
    p = np.array(case["X"]).shape[1]
    if est == "LinearSVC":
        return None
    fam, pen = EST_MAP[est]
    ps = dict(name=pen, alpha=alpha)
    df = dict(name=fam)
    if pen == "L1_plus_L2":
        ps["l1_ratio"] = .5
    if pen == "WeightedL1":
        ps["weights"] = case["weights"]
    if pen == "WeightedGroupL2":
        ps.update(weights=[1.] * len(case["groups"]), groups=case["groups"], n_features=p, positive=False)
        df.update(groups=case["groups"], n_features=p)
    sname = {"Lasso": "AndersonCD", "ElasticNet": "AndersonCD", "WeightedLasso": "AndersonCD", "SparseLogisticRegression": "ProxNewton",
             "GroupLasso": "GroupBCD", "MultiTaskLasso": "MultiTaskBCD"}[est]
    return dict(X=case["X"], y=case["y"], datafit=df, penalty=ps, solver=dict(name=sname, fit_intercept=case["fit_intercept"], tol=1e-9), storage="dense", init=None)


def container(X, kind):
    from scipy import sparse
    if kind == "F":
        return np.asfortranarray(X)
    if kind == "C":
        return np.ascontiguousarray(X)
    if kind == "csc":
        return sparse.csc_matrix(X)
    if kind == "csr":
        return sparse.csr_matrix(X)
    if kind == "list":
        return X.tolist()
    if kind == "float32":
        return np.asfortranarray(X.astype(np.float32))
    raise KeyError(kind)


def fitted_w(model, case):
    coef = np.asarray(model.coef_, float)
    if case["est"] == "MultiTaskLasso":
        W = coef.T
        return np.vstack([W, np.asarray(model.intercept_, float)[None, :]]) if case["fit_intercept"] else W
    c = coef.ravel()
    return np.r_[c, float(np.ravel(model.intercept_)[0])] if case["fit_intercept"] else c


def check_estimator(case):
    est = case["est"]
    X = np.array(case["X"], float)
    y = np.array(case["y"], float)
    sig = dict(estimator=est, fit_intercept=case["fit_intercept"])
    classes = [est]

    def fit(kind, tol):
        model, alpha = build_estimator(case, tol)
        with warnings.catch_warnings():
            warnings.simplefilter("ignore")
            yy = y.astype(np.float32) if kind == "float32" and est not in ("SparseLogisticRegression", "LinearSVC") else y
            model.fit(container(X, kind), yy)
        stop = float(getattr(model, "stop_crit_", getattr(model, "stopping_crit", np.nan)))
        return model, alpha, stop
    try:
        m_ref, alpha, stop_ref = fit("F", 1e-9)
    except Exception as e:  # noqa
        return result([], False, classes + [f"reference-exception:{type(e).__name__}(C11)"])
    if not stop_ref <= 1e-9:
        return result([], False, classes + ["reference-not-converged(inconclusive)"])
    pc = est_problem_case(case, alpha)
    w_ref = fitted_w(m_ref, case) if pc is not None else np.asarray(m_ref.coef_, float).ravel()
    viol = []
    accepted = 1
    for kind in EST_CONTAINERS:
        tol = 1e-4 if kind == "float32" else 1e-9
        sg = dict(sig, container=kind)
        try:
            m2, _, stop2 = fit(kind, tol)
        except Exception as e:  # noqa
            if explanatory(e) or (isinstance(e, (ValueError, TypeError)) and any(k in str(e).lower() for k in ("dtype", "float32", "expected 2d", "sparse"))):
                classes.append(f"refused:{kind}")
                continue
            viol.append(Viol(dict(sg, kind="unexplained-failure", exc=type(e).__name__),
                             f"{est}.fit on a {kind} container raises {type(e).__name__}: {str(e)[:200]!r} while the ndarray container fits"))
            continue
        if not stop2 <= tol:
            classes.append(f"not-converged:{kind}(inconclusive)")
            continue
        accepted += 1
        if pc is None:     # LinearSVC: primal coefficients are unique (strongly convex primal)
            d = float(np.max(np.abs(np.asarray(m2.coef_, float).ravel() - w_ref)))
            lim = 1e-4 * (1 + float(np.max(np.abs(w_ref)))) if kind != "float32" else 5e-2 * (1 + float(np.max(np.abs(w_ref))))
            if d > lim:
                viol.append(Viol(dict(sg, kind="coefficients-differ"), f"LinearSVC on {kind}: coef_ differs from the ndarray fit by {d:.3e}"))
            continue
        w2 = fitted_w(m2, case)
        if kind == "float32":
            Fa, Fb = M.F_of(pc, w_ref), M.F_of(pc, w2)
            # single precision: the incrementally updated model-fit buffer drifts by ~eps32 * |y| per coordinate
            # update, i.e. by eps32 * (number of epochs) relative to the DATA scale on slowly converging (nearly
            # collinear) designs -- the yardstick is the null-model objective F(0), not the optimal value
            F0 = M.F_of(pc, np.zeros_like(w_ref))
            if abs(Fa - Fb) > 1e-3 * (abs(Fa) + 1e-12) + 1e-4 * (1 + float(np.abs(w2 - w_ref).sum())) + 1e-4 * abs(F0):
                viol.append(Viol(dict(sg, kind="objective-differs"), f"{est} on float32 data: objective {Fb!r} vs float64 {Fa!r}"))
        else:
            viol += M.compare(pc, w_ref, w2, 1e-9, f"{est} on {kind} vs ndarray", sg, Viol)
    w = np.asarray(m_ref.coef_, float)
    supp = np.abs(w).reshape(-1, X.shape[1]).sum(0) != 0
    return result(viol, accepted >= 2 and bool(supp.any() and (~supp).any()), classes + [f"accepted={accepted}"])
