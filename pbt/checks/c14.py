"""C14 -- general components reduce to the simpler ones they generalise."""
import math
import warnings

import numpy as np
from hypothesis import strategies as st

from .. import gen, problems as P, metamorph as M
from ..common import Viol, result, bootstrap
from ..compose import compiled, groups_arrays

PROPERTY = "C14"
RULE = ("one case = one (general configuration, special case) pair + generated inputs. Function level (values, "
        "proxes, optimality scores, gradients, Lipschitz constants; equality to 1e-12, 1e-9 for limits): unit weights "
        "vs unweighted (WeightedL1/L1, WeightedMCP/MCP, WeightedGroupL2 vs the l2 norm), l1_ratio = 1 vs L1, "
        "singleton groups vs (weighted) L1, one task vs single task (L2_1/L1, BlockMCP/MCP, BlockSCAD/SCAD, "
        "QuadraticMultiTask/Quadratic), constant SLOPE vs L1, gamma = 1e12 MCP / SCAD vs L1, delta > max|r| Huber vs "
        "Quadratic, unit sample weights vs Quadratic, integer sample weights vs replicated rows, Efron vs Breslow on "
        "tie-free data, QuadraticGroup / LogisticGroup vs Quadratic / Logistic. Solution level (convex, cold, tol "
        "1e-9, theorem-backed margins): GroupBCD on singleton groups vs AndersonCD, MultiTaskBCD with one task vs "
        "AndersonCD, FISTA + constant SLOPE vs AndersonCD + L1, GramCD vs AndersonCD, each estimator vs the equivalent "
        "GeneralizedLinearEstimator. Non-trivial: the general component runs through its general code path (weights "
        "/ groups / task axis present) and the compared quantity is non-zero.")
ASSUMPTIONS = ["solution-level pairs require both solves to converge (else inconclusive)"]

FUNC_PAIRS = ["WeightedL1~L1", "WeightedMCP~MCP", "Enet(1)~L1", "GroupL2(singletons)~WeightedL1", "L1GroupL2(singletons)~WeightedL1",
              "L1GroupL2(wg=0)~WeightedL1", "L1GroupL2(wf=0)~GroupL2", "L2_1(T=1)~L1", "BlockMCP(T=1)~MCP",
              "BlockSCAD(T=1)~SCAD", "SLOPE(const)~L1", "MCP(gamma=inf)~L1", "SCAD(gamma=inf)~L1", "Huber(delta=inf)~Quadratic",
              "WeightedQuadratic(1)~Quadratic", "WeightedQuadratic(int)~replicated", "Cox:efron~breslow(no ties)",
              "QuadraticGroup~Quadratic", "LogisticGroup~Logistic", "QuadraticMultiTask(T=1)~Quadratic"]
SOL_PAIRS = ["GroupBCD(singletons)~AndersonCD", "MultiTaskBCD(T=1)~AndersonCD", "FISTA+SLOPE(const)~AndersonCD+L1", "GramCD~AndersonCD",
             "Lasso~GLE", "ElasticNet~GLE", "SparseLogisticRegression~GLE"]


def shards(tier):
    nf, ns = (300, 60) if tier == "quick" else (4000, 500)
    return [dict(id="f:" + p, kind="func", pair=p, n=nf) for p in FUNC_PAIRS] + [dict(id="s:" + p, kind="sol", pair=p, n=ns, cost=ns * 4) for p in SOL_PAIRS]


@st.composite
def func_case(draw, pair):
    p = draw(st.integers(1, 6))
    n = draw(st.integers(2, 10))
    case = dict(kind="func", pair=pair, alpha=draw(gen.pos_float(-2, 1)), gamma=draw(gen.pos_float(-1, 1)) + 1.,
                w=[draw(gen.real(-2, 1, zero=.3)) for _ in range(p)], grad=[draw(gen.real(-2, 1)) for _ in range(p)],
                x=draw(gen.real(-2, 1)), step=draw(gen.pos_float(-2, 0)), positive=draw(st.booleans()),
                weights=draw(gen.weights(p)))
    K = draw(gen.hnp.arrays(np.int16, (n, p), elements=st.integers(-3000, 3000)))
    case["X"] = (K.astype(float) / 1000.).tolist()
    case["y"] = draw(gen.real_target(n))
    case["sw_int"] = [draw(st.integers(1, 3)) for _ in range(n)]
    case["signs"] = draw(gen.sign_target(n))
    case["times"] = list(draw(st.permutations(list(range(1, n + 1)))))
    case["status"] = [draw(st.sampled_from([1., 1., 0.])) for _ in range(n)]
    if not any(case["status"]):
        case["status"][0] = 1.
    case["groups"] = draw(gen.partition(p))
    case["perm"] = list(draw(st.permutations(list(range(p)))))     # storage order of singleton groups
    case["weights2"] = draw(gen.weights(p))
    return case


@st.composite
def sol_case(draw, pair):
    fam = "Logistic" if pair.startswith("SparseLogistic") else "Quadratic"
    pen = "WeightedL1" if pair.startswith("GroupBCD") else ("L1_plus_L2" if pair.startswith("ElasticNet") else "L1")
    if pair.startswith("GramCD") and draw(st.booleans()):
        pen = "WeightedL1"     # an index-dependent penalty: the Gram solver picks coordinates greedily, CD cyclically
    case = draw(P.scalar_case("AndersonCD", fam, pen, sizes=(4, 14, 2, 8), starts=False, degenerate=False))
    case["penalty"]["positive"] = False
    if "weights" in case["penalty"]:
        case["penalty"]["weights"] = [w if w > 0 else .5 for w in case["penalty"]["weights"]]
    if pair.startswith(("FISTA", "GramCD", "MultiTask")) or fam == "Logistic":
        case["solver"]["fit_intercept"] = False if not pair.startswith("MultiTask") else case["solver"]["fit_intercept"]
    case["pair"], case["kind"] = pair, "sol"
    case["init"] = None
    return case


def strategy(shard):
    return func_case(shard["pair"]) if shard["kind"] == "func" else sol_case(shard["pair"])


def close(a, b, rel, absol=0.):
    a, b = np.asarray(a, float), np.asarray(b, float)
    if a.shape != b.shape:
        return False
    both_inf = np.isinf(a) & np.isinf(b) & (np.sign(a) == np.sign(b))
    d = np.abs(np.where(both_inf, 0., a - b))
    return bool(np.all(d <= rel * (np.abs(a) + np.abs(b)) / 2 + 1e-13 * (1 + np.abs(np.where(np.isinf(a), 0., a))) + absol))


def check_case(case):
    bootstrap()
    return check_func(case) if case["kind"] == "func" else check_sol(case)


def check_func(case):
    from skglm import penalties as Pn, datafits as D
    pair = case["pair"]
    a, gam, pos = case["alpha"], case["gamma"], case["positive"]
    w = np.array(case["w"], float)
    g = np.array(case["grad"], float)
    p = len(w)
    ws = np.arange(p)
    x, s = case["x"], case["step"]
    X = np.asfortranarray(np.array(case["X"], float))
    y = np.array(case["y"], float)
    n = X.shape[0]
    viol = []
    sig = dict(pair=pair)
    nz = bool(np.any(w))

    limit_abs = 1e-9 * (1 + a + float(np.max(np.abs(w))) + abs(x)) if "gamma=inf" in pair else 0.   # limits carry an O(1/gamma) error

    def cmp(name, A, B, rel=1e-12):
        if not close(A, B, rel, limit_abs):
            viol.append(Viol(dict(sig, quantity=name), f"{pair}: {name} differs: general {np.asarray(A).tolist()!r} vs special case {np.asarray(B).tolist()!r}"))
    if pos:
        w_f = np.abs(w)
    else:
        w_f = w
    if pair in ("WeightedL1~L1", "WeightedMCP~MCP", "Enet(1)~L1", "MCP(gamma=inf)~L1", "SCAD(gamma=inf)~L1"):
        rel = 1e-12
        if pair == "WeightedL1~L1":
            G, S_ = Pn.WeightedL1(a, np.ones(p), pos), Pn.L1(a, pos)
        elif pair == "WeightedMCP~MCP":
            G, S_ = Pn.WeightedMCPenalty(a, gam, np.ones(p), pos), Pn.MCPenalty(a, gam, pos)
            s = min(s, .9 * gam)
        elif pair == "Enet(1)~L1":
            G, S_ = Pn.L1_plus_L2(a, 1., pos), Pn.L1(a, pos)
        elif pair == "MCP(gamma=inf)~L1":
            G, S_, rel = Pn.MCPenalty(a, 1e12, pos), Pn.L1(a, pos), 1e-7
        else:
            G, S_, rel, pos, w_f = Pn.SCAD(a, 1e12), Pn.L1(a, False), 1e-7, False, w
        G, S_ = compiled(G), compiled(S_)
        cmp("value", G.value(w_f), S_.value(w_f), rel)
        cmp("prox_1d", [G.prox_1d(float(v), s, j) for j, v in enumerate(w - s * g)], [S_.prox_1d(float(v), s, j) for j, v in enumerate(w - s * g)], rel)
        cmp("subdiff_distance", G.subdiff_distance(w_f, g, ws), S_.subdiff_distance(w_f, g, ws), rel)
        if hasattr(G, "alpha_max") and hasattr(S_, "alpha_max"):
            cmp("alpha_max", G.alpha_max(g), S_.alpha_max(g), rel)
    elif pair == "GroupL2(singletons)~WeightedL1":
        wt = np.array(case["weights"], float)       # weight of feature j
        perm = case.get("perm") or list(range(p))   # group k is the singleton [perm[k]]
        gp, gi, _ = groups_arrays([[j] for j in perm], p)
        G, S_ = compiled(Pn.WeightedGroupL2(a, wt[perm], gp, gi, pos)), compiled(Pn.WeightedL1(a, wt, pos))
        z = w - s * g
        cmp("value", G.value(w_f), S_.value(w_f))
        cmp("prox", [G.prox_1group(np.array([float(z[j])]), s, k)[0] for k, j in enumerate(perm)], [S_.prox_1d(float(z[j]), s, j) for j in perm])
        # the group score takes the gradients of the groups of `ws` stacked in group order
        cmp("subdiff_distance", G.subdiff_distance(w_f, g[perm].copy(), np.arange(p)), np.asarray(S_.subdiff_distance(w_f, g, ws))[perm])
    elif pair == "L1GroupL2(singletons)~WeightedL1":
        wf, wg_feat = np.array(case["weights"], float), np.array(case.get("weights2") or case["weights"], float)
        perm = case.get("perm") or list(range(p))
        gp, gi, _ = groups_arrays([[j] for j in perm], p)
        G = compiled(Pn.WeightedL1GroupL2(a, wg_feat[perm], wf, gp, gi))
        S_ = compiled(Pn.WeightedL1(a, wf + wg_feat, False))
        z = w - s * g
        cmp("value", G.value(w), S_.value(w))
        cmp("prox", [G.prox_1group(np.array([float(z[j])]), s, k)[0] for k, j in enumerate(perm)], [S_.prox_1d(float(z[j]), s, j) for j in perm])
    elif pair in ("L1GroupL2(wg=0)~WeightedL1", "L1GroupL2(wf=0)~GroupL2"):
        groups = case["groups"]
        gp, gi, _ = groups_arrays(groups, p)
        z = w - s * g
        if pair.startswith("L1GroupL2(wg=0)"):
            wf = np.array(case["weights"], float)
            G = compiled(Pn.WeightedL1GroupL2(a, np.zeros(len(groups)), wf, gp, gi))
            S_ = compiled(Pn.WeightedL1(a, wf, False))
            cmp("value", G.value(w), S_.value(w))
            for k, idx in enumerate(groups):
                cmp("prox", G.prox_1group(z[idx].copy(), s, k), [S_.prox_1d(float(z[j]), s, j) for j in idx])
        else:
            wgs = np.array((case.get("weights2") or case["weights"])[:len(groups)] + [1.] * max(0, len(groups) - p), float)
            G = compiled(Pn.WeightedL1GroupL2(a, wgs, np.zeros(p), gp, gi))
            S_ = compiled(Pn.WeightedGroupL2(a, wgs, gp, gi, False))
            cmp("value", G.value(w), S_.value(w))
            for k, idx in enumerate(groups):
                cmp("prox", G.prox_1group(z[idx].copy(), s, k), S_.prox_1group(z[idx].copy(), s, k))
    elif pair in ("L2_1(T=1)~L1", "BlockMCP(T=1)~MCP", "BlockSCAD(T=1)~SCAD"):
        if pair.startswith("L2_1"):
            G, S_ = Pn.L2_1(a), Pn.L1(a)
        elif pair.startswith("BlockMCP"):
            G, S_ = Pn.BlockMCPenalty(a, gam), Pn.MCPenalty(a, gam)
            s = min(s, .9 * gam)
        else:
            G, S_ = Pn.BlockSCAD(a, gam + 1), Pn.SCAD(a, gam + 1)
            s = min(s, .9 * gam)
        G, S_ = compiled(G), compiled(S_)
        W = w[:, None].copy()
        cmp("value", G.value(W), S_.value(w))
        cmp("prox", [G.prox_1feat(np.array([float(v)]), s, j)[0] for j, v in enumerate(w - s * g)], [S_.prox_1d(float(v), s, j) for j, v in enumerate(w - s * g)], 1e-10)
        cmp("subdiff_distance", G.subdiff_distance(W, g[:, None].copy(), ws), S_.subdiff_distance(w, g, ws), 1e-10)
    elif pair == "SLOPE(const)~L1":
        G, S_ = compiled(Pn.SLOPE(np.full(p, a))), compiled(Pn.L1(a))
        cmp("value", G.value(w), S_.value(w))
        z = w - s * g
        cmp("prox", G.prox_vec(z, s), [S_.prox_1d(float(v), s, j) for j, v in enumerate(z)])
    elif pair in ("Huber(delta=inf)~Quadratic", "WeightedQuadratic(1)~Quadratic", "QuadraticGroup~Quadratic", "LogisticGroup~Logistic",
                  "QuadraticMultiTask(T=1)~Quadratic"):
        yy = np.array(case["signs"], float) if pair.startswith("Logistic") else y
        Xw = X @ w
        if pair.startswith("Huber"):
            G, S_ = D.Huber(float(np.max(np.abs(yy - Xw)) * 2 + 1)), D.Quadratic()
        elif pair.startswith("WeightedQuadratic"):
            G, S_ = D.WeightedQuadratic(np.ones(n)), D.Quadratic()
        elif pair.startswith("QuadraticGroup"):
            gp, gi, _ = groups_arrays(case["groups"], p)
            G, S_ = D.QuadraticGroup(gp, gi), D.Quadratic()
        elif pair.startswith("LogisticGroup"):
            gp, gi, _ = groups_arrays(case["groups"], p)
            G, S_ = D.LogisticGroup(gp, gi), D.Logistic()
        else:
            G, S_ = D.QuadraticMultiTask(), D.Quadratic()
        G, S_ = compiled(G), compiled(S_)
        if pair.startswith("QuadraticMultiTask"):
            Y2, W2, XW2 = yy[:, None].copy(), w[:, None].copy(), Xw[:, None].copy()
            G.initialize(X, Y2)
            S_.initialize(X, yy)
            cmp("value", G.value(Y2, W2, XW2), S_.value(yy, w, Xw))
            cmp("gradient", [G.gradient_j(X, Y2, W2, XW2, j)[0] for j in range(p)], [S_.gradient_scalar(X, yy, w, Xw, j) for j in range(p)])
            cmp("lipschitz", G.get_lipschitz(X, Y2), S_.get_lipschitz(X, yy))
            cmp("intercept_update_step", G.intercept_update_step(Y2, XW2)[0], S_.intercept_update_step(yy, Xw))
        else:
            for o in (G, S_):
                if hasattr(o, "initialize"):
                    o.initialize(X, yy)
            cmp("value", G.value(yy, w, Xw), S_.value(yy, w, Xw))
            cmp("gradient_scalar", [G.gradient_scalar(X, yy, w, Xw, j) for j in range(p)], [S_.gradient_scalar(X, yy, w, Xw, j) for j in range(p)])
            cmp("intercept_update_step", G.intercept_update_step(yy, Xw), S_.intercept_update_step(yy, Xw))
            if "Group" in pair:
                ref = np.array([S_.gradient_scalar(X, yy, w, Xw, j) for j in range(p)])
                for gi_, idx in enumerate(case["groups"]):
                    cmp("gradient_g", G.gradient_g(X, yy, w, Xw, gi_), ref[idx])
            else:
                cmp("lipschitz", G.get_lipschitz(X, yy), S_.get_lipschitz(X, yy))
                cmp("global_lipschitz", G.get_global_lipschitz(X, yy), S_.get_global_lipschitz(X, yy))
            if hasattr(G, "raw_grad") and hasattr(S_, "raw_grad"):
                cmp("raw_grad", G.raw_grad(yy, Xw), S_.raw_grad(yy, Xw))
    elif pair == "WeightedQuadratic(int)~replicated":
        sw = np.array(case["sw_int"], float)
        rep = np.repeat(np.arange(n), case["sw_int"])
        Xr, yr = np.asfortranarray(X[rep]), y[rep]
        G, S_ = compiled(D.WeightedQuadratic(sw)), compiled(D.Quadratic())
        G.initialize(X, y)
        S_.initialize(Xr, yr)
        cmp("value", G.value(y, w, X @ w), S_.value(yr, w, Xr @ w), 1e-11)
        cmp("gradient_scalar", [G.gradient_scalar(X, y, w, X @ w, j) for j in range(p)], [S_.gradient_scalar(Xr, yr, w, Xr @ w, j) for j in range(p)], 1e-10)
        cmp("gradient(raw_grad)", X.T @ G.raw_grad(y, X @ w), Xr.T @ S_.raw_grad(yr, Xr @ w), 1e-10)
        cmp("gradient", G.gradient(X, y, X @ w), S_.gradient(Xr, yr, Xr @ w), 1e-10)
        cmp("lipschitz", G.get_lipschitz(X, y), S_.get_lipschitz(Xr, yr), 1e-11)
        cmp("global_lipschitz", G.get_global_lipschitz(X, y), S_.get_global_lipschitz(Xr, yr), 1e-10)
        cmp("intercept_update_step", G.intercept_update_step(y, X @ w), S_.intercept_update_step(yr, Xr @ w), 1e-10)
    elif pair == "Cox:efron~breslow(no ties)":
        ys = np.c_[np.array(case["times"], float), np.array(case["status"], float)]
        G, S_ = compiled(D.Cox(True)), compiled(D.Cox(False))
        G.initialize(X, ys)
        S_.initialize(X, ys)
        Xw = X @ w
        Xw = Xw * min(1., 5. / max(1e-300, np.max(np.abs(Xw))))
        cmp("value", G.value(ys, w, Xw), S_.value(ys, w, Xw), 1e-11)
        cmp("raw_grad", G.raw_grad(ys, Xw), S_.raw_grad(ys, Xw), 1e-10)
        cmp("raw_hessian", G.raw_hessian(ys, Xw), S_.raw_hessian(ys, Xw), 1e-10)
    return result(viol, nz, [pair])


def check_sol(case):
    import skglm
    pair = case["pair"]
    base = {k: v for k, v in case.items() if k not in ("pair", "kind")}
    ref = M.tight(base)
    sig = dict(pair=pair)
    tol = ref["solver"]["tol"]
    X = np.array(case["X"], float)
    y = np.array(case["y"], float)
    n, p = X.shape
    o_ref, st_ref = M.converged(ref)
    if st_ref != "ok":
        return result([], False, [pair, f"reference-{st_ref}(inconclusive)"])
    w_ref = np.asarray(o_ref.w, float)
    viol = []
    fi = bool(ref["solver"].get("fit_intercept", False))
    if pair.startswith("GroupBCD"):
        groups = [[j] for j in range(p)]
        g = dict(ref, datafit=dict(name="QuadraticGroup", groups=groups, n_features=p),
                 penalty=dict(name="WeightedGroupL2", alpha=ref["penalty"]["alpha"], weights=ref["penalty"]["weights"], groups=groups, n_features=p, positive=False),
                 solver=dict(name="GroupBCD", fit_intercept=fi, tol=tol, max_iter=300, max_epochs=3000, p0=3, ws_strategy="subdiff"))
        o2, st2 = M.converged(g)
        w2 = o2.w
    elif pair.startswith("MultiTaskBCD"):
        g = dict(ref, y=y[:, None].tolist(), datafit=dict(name="QuadraticMultiTask"), penalty=dict(name="L2_1", alpha=ref["penalty"]["alpha"]),
                 solver=dict(name="MultiTaskBCD", fit_intercept=fi, tol=tol, max_iter=300, max_epochs=3000, p0=3, ws_strategy="subdiff", use_acc=True))
        o2, st2 = M.converged(g)
        w2 = None if o2.w is None else np.asarray(o2.w)[:, 0]
    elif pair.startswith("FISTA"):
        g = dict(ref, penalty=dict(name="SLOPE", alphas=[ref["penalty"]["alpha"]] * p), solver=dict(name="FISTA", tol=tol, max_iter=50000, opt_strategy="fixpoint"))
        o2, st2 = M.converged(g)
        if st2 == "ok":     # the fix-point residual is measured with step 1/L: convert to a subgradient bound
            L = np.linalg.norm(X, 2) ** 2 / n
            tol = max(tol, tol * L * 2)
        w2 = o2.w
    elif pair.startswith("GramCD"):
        g = dict(ref, datafit=None, solver=dict(name="GramCD", tol=tol, max_iter=50000, use_acc=False, greedy_cd=True))
        o2, st2 = M.converged(g)
        w2 = o2.w
    else:
        from skglm import datafits as D, penalties as Pn, solvers as S
        a = ref["penalty"]["alpha"]
        if pair.startswith("Lasso"):
            e1 = skglm.Lasso(alpha=a, tol=tol, fit_intercept=fi, max_iter=300)
            e2 = skglm.GeneralizedLinearEstimator(D.Quadratic(), Pn.L1(a), S.AndersonCD(tol=tol, fit_intercept=fi, max_iter=300))
        elif pair.startswith("ElasticNet"):
            r = ref["penalty"]["l1_ratio"]
            e1 = skglm.ElasticNet(alpha=a, l1_ratio=r, tol=tol, fit_intercept=fi, max_iter=300)
            e2 = skglm.GeneralizedLinearEstimator(D.Quadratic(), Pn.L1_plus_L2(a, r), S.AndersonCD(tol=tol, fit_intercept=fi, max_iter=300))
        else:
            e1 = skglm.SparseLogisticRegression(alpha=a, tol=tol, fit_intercept=fi, max_iter=300)
            e2 = skglm.GeneralizedLinearEstimator(D.Logistic(), Pn.L1(a), S.ProxNewton(tol=tol, fit_intercept=fi, max_iter=300))
        try:
            with warnings.catch_warnings():
                warnings.simplefilter("ignore")
                e1.fit(X, y)
                e2.fit(X, y)
        except Exception as e:  # noqa
            return result([Viol(dict(sig, kind="exception", exc=type(e).__name__), f"{pair}: fit raised {type(e).__name__}: {str(e)[:160]}")], True, [pair])
        if not (e1.stop_crit_ <= tol and e2.stop_crit_ <= tol):
            return result([], False, [pair, "not-converged(inconclusive)"])
        wa = np.r_[np.ravel(e1.coef_), np.ravel(e1.intercept_)[0]] if fi else np.ravel(e1.coef_)
        wb = np.r_[np.ravel(e2.coef_), np.ravel(e2.intercept_)[0]] if fi else np.ravel(e2.coef_)
        viol += M.compare(ref, w_ref, wa, tol, f"{pair} (estimator vs solver-level reference)", sig, Viol)
        viol += M.compare(ref, wa, wb, tol, pair, sig, Viol)
        return result(viol, bool(np.any(w_ref)), [pair])
    if st2 == "exception":
        return result([Viol(dict(sig, kind="exception", exc=type(o2.exc).__name__), f"{pair}: the general configuration raises {type(o2.exc).__name__}: {str(o2.exc)[:160]}")], True, [pair])
    if st2 != "ok":
        # (a relative "keeps x % of the initial sub-optimality" rule was tried here and withdrawn: plain coordinate descent
        # on two nearly collinear columns legitimately needs far more than 50000 epochs where the accelerated special case
        # converges -- different algorithms may differ in speed by any factor)
        # Stagnation at a non-stationary point (c01.stagnation: flat true-objective history vs the gain one coordinate
        # pass guarantees) -- no budget argument
        if pair.startswith("GramCD"):
            from . import c01
            msg = c01.stagnation(g, o2, tol)
            if msg:
                return result([Viol(dict(sig, kind="general-stagnates"), f"{pair}: the general configuration {msg}, while the special case converges")],
                              True, [pair, "general-not-converged"])
        return result([], False, [pair, "general-not-converged(inconclusive)"])
    viol += M.compare(ref, w_ref, np.asarray(w2, float), tol, pair, sig, Viol, factor=4. if pair.startswith("FISTA") else 2.)
    return result(viol, bool(np.any(w_ref)), [pair])
