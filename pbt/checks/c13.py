"""C13 -- every solver x datafit x penalty x storage x intercept x strategy cell is refused with an
explanation or solved (finite values + optimality certificate); never a compiled-code failure."""
import math
import re

import numpy as np
from hypothesis import strategies as st

from .. import gen, problems as P, refmath as R
from ..common import Viol, result, bootstrap, crumb
from . import c01

PROPERTY = "C13"
LEVEL = "exploration"
EXHAUSTIVE = {"quick": False, "thorough": True}
RULE = ("the finite matrix 9 solvers x 15 datafit configurations x 19 penalties x {dense, CSC} x {fit_intercept} x "
        "{subdiff, fixpoint} is ENUMERATED (thorough: completely; quick: every solver x every datafit x 5 penalties "
        "and every penalty x 2 datafits); one case = Hypothesis-drawn small data set for a (solver, datafit) pair, on "
        "which every penalty and every knob cell is run (datafit initialised on the data first). Outcome must be "
        "REFUSED (AttributeError/ValueError whose text names the missing method / attribute / unsupported structure) "
        "or SOLVED (finite numbers; if stop_crit <= tol the C01 certificate). Non-trivial = a case on which at least "
        "one cell was accepted and solved; distinct = SHA-1 of the case; cells / accepted cells are counted in "
        "classes.")
ASSUMPTIONS = ["datafits are initialised on the data before solve (documented usage; FISTA / ProxNewton / LBFGS / PDCD_WS do not do it themselves)",
               "PDCD_WS's criterion is a primal-dual fixed-point residual, not a primal certificate: only finiteness is judged here (C02 judges its optimum)",
               "non-convergence inside the budget is inconclusive (counted), never a violation"]

SOLVERS = ["AndersonCD", "ProxNewton", "GramCD", "GroupBCD", "GroupProxNewton", "MultiTaskBCD", "FISTA", "LBFGS", "PDCD_WS"]
DATAFITS = ["Quadratic", "WeightedQuadratic", "Logistic", "Huber", "Poisson", "Gamma", "Cox-breslow", "Cox-efron",
            "QuadraticSVC", "QuadraticGroup", "LogisticGroup", "QuadraticMultiTask", "SqrtQuadratic", "Pinball", "None"]
PENALTIES = ["L1", "WeightedL1", "L1_plus_L2", "MCPenalty", "WeightedMCPenalty", "SCAD", "IndicatorBox",
             "PositiveConstraint", "L0_5", "L2_3", "LogSumPenalty", "L2", "WeightedGroupL2", "WeightedL1GroupL2",
             "L2_1", "L2_05", "BlockMCPenalty", "BlockSCAD", "SLOPE"]
QUICK_PENS = ["L1", "WeightedMCPenalty", "WeightedGroupL2", "L2_1", "L2"]
QUICK_FULL_DATAFITS = ["Quadratic", "Logistic"]

EXPLAIN = re.compile(r"(is not compatible with solver|must implement|Missing|not block-separable|supports only|"
                     r"not yet supported|Unsupported value|should be of size|Penalty must implement|must be `subdiff`|"
                     r"Unknown error optimality strategy|should only take positive values|must be `None`|"
                     r"object has no attribute '\w+'|SmallResidualException)", re.I)


def shards(tier):
    out = []
    n = 2 if tier == "quick" else 6
    for s in SOLVERS:
        for d in DATAFITS:
            if (s == "GramCD") != (d == "None") and d == "None":
                continue
            pens = PENALTIES if (tier == "thorough" or d in QUICK_FULL_DATAFITS or d == "None") else QUICK_PENS
            out.append(dict(id=f"{s}-{d}", solver=s, fam=d, pens=pens, n=n, cost=len(pens) * (10 if d not in ("Pinball",) else 1)))
    return out


@st.composite
def data_case(draw, shard):
    fam = shard["fam"]
    m = draw(gen.matrix(n_min=5, n_max=9, p_min=3, p_max=6, degenerate=False, scales=False, density=1.))
    X = np.array(m["X"])
    n, p = X.shape
    # C13 is about well-posed small problems (degenerate data is C19's domain): make every column non-zero
    # and the columns not all equal, by construction (also under shrinking)
    for j in range(p):
        X[(j * 2) % n, j] += 1.5 + j
        if not X[:, j].any():
            X[j % n, j] = 1.
    m["X"] = X.tolist()
    case = dict(solver=shard["solver"], fam=fam, pens=shard["pens"], X=m["X"])
    if fam == "None":
        case["datafit"], case["y"] = None, draw(gen.planted_target(X))
    elif fam == "QuadraticMultiTask":
        T = draw(st.integers(1, 3))
        case["datafit"] = dict(name=fam)
        case["y"] = [[draw(gen.real(-1, 0)) + 1. for _ in range(T)] for _ in range(n)]
    elif fam == "Pinball":
        case["datafit"] = dict(name=fam, quantile=draw(st.sampled_from([.5, .3, .8])))
        case["y"] = draw(gen.planted_target(X))
    elif fam == "SqrtQuadratic":
        case["datafit"] = dict(name=fam)
        case["y"] = draw(gen.planted_target(X))
    else:
        case["datafit"], case["y"] = P.datafit_spec_and_target(draw, fam, X)
    if fam in ("None", "Pinball", "SqrtQuadratic", "Quadratic", "WeightedQuadratic", "Huber", "QuadraticGroup"):
        case["y"] = [float(v + (-1) ** i * (i % 3 + 1)) for i, v in enumerate(case["y"])]   # never constant / zero
    groups = draw(gen.partition(p, max_groups=3))
    case["groups"] = groups
    if fam in ("QuadraticGroup", "LogisticGroup"):
        case["datafit"].update(groups=groups, n_features=p)
    nvar = n if fam == "QuadraticSVC" else p
    case["nvar"] = nvar
    # strictly positive weights: unpenalised directions can make a GLM unbounded below (e.g. Poisson with zero
    # counts), which is not a defect of any composition; zero weights are exercised by C01 / C16 / C19
    case["weights"] = draw(gen.weights(nvar, zero_prob=0.))
    case["gweights"] = draw(gen.weights(len(groups), zero_prob=0.))
    if fam == "Poisson":
        case["y"][0] = case["y"][0] + 1.    # at least one positive count: the intercept-only model is bounded
    case["frac"] = draw(st.sampled_from([.05, .3, .7]))
    return case


def strategy(shard):
    return data_case(shard)


def penalty_spec(case, name):
    nvar, groups = case["nvar"], case["groups"]
    X = np.array(case["X"], float)
    n, p = X.shape
    # scale of alpha: gradient of the loss at 0 when computable
    try:
        pc = dict(X=case["X"], y=case["y"], datafit=case["datafit"])
        if case["fam"] == "QuadraticMultiTask":
            g0 = np.linalg.norm(X.T @ np.array(case["y"]) / n, axis=1)
        elif case["fam"] in ("Pinball", "SqrtQuadratic"):
            g0 = np.abs(X.T @ np.sign(np.array(case["y"]))) if case["fam"] == "Pinball" else np.abs(X.T @ np.array(case["y"])) / (np.linalg.norm(case["y"]) + 1e-300)
        else:
            g0 = np.abs(P.null_gradient(pc))
        amax = float(np.max(g0)) or 1.
    except Exception:  # noqa
        amax = 1.
    a = amax * case["frac"]
    L = (X ** 2).sum(0) / n
    Lmin = float(L[L > 0].min()) if (L > 0).any() else 1.
    gam = 3. / min(Lmin, 1.) + 2.
    if case["fam"] == "QuadraticSVC":
        gam = 3.
    w = case["weights"]
    if name in ("L1", "L0_5", "L2_3", "L2", "L2_1", "L2_05"):
        return dict(name=name, alpha=a)
    if name == "WeightedL1":
        return dict(name=name, alpha=a, weights=w)
    if name == "L1_plus_L2":
        return dict(name=name, alpha=a, l1_ratio=.5)
    if name in ("MCPenalty", "SCAD", "BlockMCPenalty", "BlockSCAD"):
        return dict(name=name, alpha=a, gamma=gam)
    if name == "WeightedMCPenalty":
        return dict(name=name, alpha=a, gamma=gam * 3., weights=w)
    if name == "IndicatorBox":
        return dict(name=name, alpha=1.)
    if name == "PositiveConstraint":
        return dict(name=name)
    if name == "LogSumPenalty":
        return dict(name=name, alpha=a, eps=.5)
    if name == "WeightedGroupL2":
        return dict(name=name, alpha=a, weights=case["gweights"], groups=groups, n_features=p, positive=False)
    if name == "WeightedL1GroupL2":
        wf = (w * p)[:p] if len(w) < p else w[:p]
        return dict(name=name, alpha=a, weights_groups=case["gweights"], weights_features=wf, groups=groups, n_features=p)
    if name == "SLOPE":
        return dict(name=name, alphas=sorted([a * (1 + .3 * k) for k in range(nvar)], reverse=True))
    raise KeyError(name)


def knob_cells(solver):
    fis = [False, True] if solver in ("AndersonCD", "ProxNewton", "GroupBCD", "GroupProxNewton", "MultiTaskBCD") else [False]
    strats = ["subdiff", "fixpoint"] if solver in ("AndersonCD", "ProxNewton", "GroupBCD", "MultiTaskBCD", "FISTA") else [None]
    cells = [(stg, fi, ws) for stg in ("dense", "csc") for fi in fis for ws in strats]
    # one extra cell with a tiny budget (stops before the first inner convergence test): the "runs to completion"
    # half of the property must not depend on the budget
    cells.append(("dense", fis[-1], (strats[0] or "") + "+tiny"))
    return cells


def solver_spec(solver, fi, ws):
    if solver == "AndersonCD":
        return dict(name=solver, max_iter=50, max_epochs=1000, p0=2, tol=1e-6, ws_strategy=ws, fit_intercept=fi)
    if solver == "ProxNewton":
        return dict(name=solver, max_iter=50, max_pn_iter=200, p0=2, tol=1e-6, ws_strategy=ws, fit_intercept=fi)
    if solver == "GramCD":
        return dict(name=solver, max_iter=1000, tol=1e-6, use_acc=False, greedy_cd=True)
    if solver == "GroupBCD":
        return dict(name=solver, max_iter=100, max_epochs=1000, p0=2, tol=1e-6, ws_strategy=ws, fit_intercept=fi)
    if solver == "GroupProxNewton":
        return dict(name=solver, max_iter=50, max_pn_iter=200, p0=2, tol=1e-6, fit_intercept=fi)
    if solver == "MultiTaskBCD":
        return dict(name=solver, max_iter=100, max_epochs=1000, p0=2, tol=1e-6, ws_strategy=ws, fit_intercept=fi, use_acc=True)
    if solver == "FISTA":
        return dict(name=solver, max_iter=3000, tol=1e-5, opt_strategy=ws)
    if solver == "LBFGS":
        return dict(name=solver, max_iter=500, tol=1e-6)
    if solver == "PDCD_WS":
        return dict(name=solver, max_iter=200, max_epochs=500, p0=2, tol=1e-5)
    raise KeyError(solver)


def certificate_kind(solver, fam, pen):
    scalar_pens = set(P.SCALAR) | {"L2"}
    scalar_fams = {"Quadratic", "WeightedQuadratic", "Logistic", "Huber", "Poisson", "Gamma", "Cox-breslow", "Cox-efron",
                   "QuadraticSVC", "None", "QuadraticGroup", "LogisticGroup", "SqrtQuadratic"}
    if solver == "PDCD_WS":
        return None
    if solver == "MultiTaskBCD":
        return "multitask" if (fam == "QuadraticMultiTask" and pen in P.ROW) else None
    if solver in ("GroupBCD", "GroupProxNewton"):
        return "group" if (fam in ("QuadraticGroup", "LogisticGroup") and pen == "WeightedGroupL2") else None
    if pen in scalar_pens and fam in scalar_fams:
        return "scalar"
    return None


def check_case(case):
    bootstrap()
    solver, fam = case["solver"], case["fam"]
    viol, classes = [], [solver]
    n_cells = n_acc = n_ref = n_incon = 0
    for pen in case["pens"]:
        try:
            pspec = penalty_spec(case, pen)
        except Exception:  # noqa
            continue
        for (stg, fi, ws) in knob_cells(solver):
            n_cells += 1
            tiny = isinstance(ws, str) and ws.endswith("+tiny")
            if tiny:
                ws = ws[:-5] or None
            sspec = solver_spec(solver, fi, ws)
            if tiny:
                for k, v in (("max_iter", 2), ("max_epochs", 5), ("max_pn_iter", 2)):
                    if k in sspec:
                        sspec[k] = v
                if solver == "MultiTaskBCD":
                    sspec["use_acc"] = False
            pc = dict(X=case["X"], y=case["y"], datafit=case["datafit"], penalty=pspec, solver=sspec, storage=stg, init=None)
            sig = dict(solver=solver, datafit=fam, penalty=pen, storage=stg, fit_intercept=fi, strategy=ws, tiny_budget=tiny)
            crumb(dict(cell=sig, case=case))
            out = P.run(pc)
            if out.exc is not None:
                e = out.exc
                msg = str(e)
                if isinstance(e, (AttributeError, ValueError)) and EXPLAIN.search(msg) and "broadcast" not in msg:
                    n_ref += 1
                    continue
                kind = "compiled-code-failure" if type(e).__name__ in ("TypingError", "ZeroDivisionError", "IndexError", "UnboundLocalError", "LoweringError", "NumbaError", "LinAlgError") or "broadcast" in msg else "unexplained-exception"
                viol.append(Viol(dict(sig, kind=kind, exc=type(e).__name__, stage=getattr(out, "stage", "?")),
                                 f"{solver} x {fam} x {pen} [{stg}, fit_intercept={fi}, {ws}] raised {type(e).__name__}: {msg[:160]!r}"))
                continue
            n_acc += 1
            w = np.asarray(out.w)
            if pen == "PositiveConstraint" and fam in ("Logistic", "LogisticGroup", "Poisson", "Gamma", "Cox-breslow", "Cox-efron") \
                    and not (out.stop <= sspec["tol"]):
                # a positivity constraint does not make these losses coercive (separable data: no finite minimiser);
                # a diverging, non-converged run is inconclusive, not a defect
                n_incon += 1
                continue
            if not (np.all(np.isfinite(w)) and math.isfinite(out.stop) and np.all(np.isfinite(out.obj))):
                what = "coefficients" if not np.all(np.isfinite(w)) else ("stop_crit" if not math.isfinite(out.stop) else "objective history")
                viol.append(Viol(dict(sig, kind="non-finite", what=what),
                                 f"{solver} x {fam} x {pen} [{stg}, fit_intercept={fi}, {ws}] returned non-finite {what} (stop_crit={out.stop!r})"))
                continue
            tol = sspec["tol"]
            ok = out.stop < tol if solver == "FISTA" else out.stop <= tol
            if not ok:
                n_incon += 1
                if not tiny:
                    classes.append(f"not-converged:{solver}/{fam}/{pen}")
                    msg = c01.stagnation(pc, out, tol)
                    if msg:
                        viol.append(Viol(dict(sig, kind="stagnates"), f"{solver} x {fam} x {pen} [{stg}, fit_intercept={fi}, {ws}] is neither refused nor solved: it {msg}"))
                continue
            ck = certificate_kind(solver, fam, pen)
            if solver == "FISTA" and ws == "fixpoint" and pen not in ("L1", "WeightedL1", "L1_plus_L2", "IndicatorBox", "PositiveConstraint", "L2"):
                ck = None   # one-sided step argument of problems.global_lipschitz needs a convex penalty
            if solver == "FISTA" and ws == "fixpoint" and ck is not None and P.global_lipschitz(pc) is None:
                ck = None
            if ck is None:
                classes.append("accepted-without-reference-certificate")
                continue
            try:
                strat = ws if solver in ("AndersonCD", "ProxNewton", "GroupBCD", "MultiTaskBCD", "FISTA") else "subdiff"
                if pen == "L2":
                    strat = "subdiff"
                c = c01.certificate(pc, out.w, strat or "subdiff")
            except Exception as e:  # noqa  (shape mismatch of an ill-formed but accepted cell)
                viol.append(Viol(dict(sig, kind="accepted-ill-formed", exc=type(e).__name__),
                                 f"{solver} x {fam} x {pen} accepted and 'converged' but its output has no valid shape for the problem: {e!r}"[:300]))
                continue
            lim = tol * (1 + 1e-6)
            slack = 1e-7
            exc = c["vec"] - lim - slack * c["gscale"]
            bad_f = len(exc) and exc.max() > 0
            bad_i = c["icpt"] > lim + slack * c["icpt_scale"]
            if bad_f or bad_i:
                viol.append(Viol(dict(sig, kind="certificate", component="intercept-gradient" if (bad_i and not bad_f) else "feature-gradient"),
                                 f"{solver} x {fam} x {pen} [{stg}, fit_intercept={fi}, {ws}] claims stop_crit={out.stop:.2e} <= {tol:g} "
                                 f"but the recomputed violation is {max(c['feat'], c['icpt']):.3e}"))
    classes += [f"cells={n_cells}", ]
    info = dict(cells=n_cells, accepted=n_acc, refused=n_ref, inconclusive=n_incon)
    res = result(viol, n_acc > 0, classes)
    res["sums"] = info
    return res
