"""C12 -- classifier outputs are consistent with the fitted linear model(s)."""
import warnings

import numpy as np
from hypothesis import strategies as st

from .. import gen
from ..common import Viol, result, bootstrap

PROPERTY = "C12"
RULE = ("one case = classifier (SparseLogisticRegression, LinearSVC, GeneralizedLinearEstimator with Logistic / "
        "QuadraticSVC) + generated data + label set (strings, arbitrary integers incl. negative ones, {-1,1}, {0,1}; "
        "2-4 classes) + intercept flag + dense / CSC + a generated renaming of the labels (order preserving, or order "
        "reversing for two classes, or an arbitrary permutation for more). Oracles: predict == classes_[argmax "
        "decision] (binary: decision > 0); probabilities in [0,1], rows sum to 1, monotone in the class's own "
        "decision value; metamorphic renaming: an order-preserving renaming leaves coef_, intercept_, decision values "
        "unchanged and maps predictions through the renaming, an order-reversing binary renaming negates them, an "
        "arbitrary multiclass renaming permutes rows accordingly; multiclass: column k of decision_function equals "
        "the decision of a fresh binary fit of (y == classes_[k]) with the same hyper-parameters, intercept included "
        "(solver-tolerance margin). Samples with |decision| < 1e-6 are excluded from label comparisons. "
        "Non-trivial: >= 3 classes, or a renaming that changes the sorted order, with a non-zero intercept.")
ASSUMPTIONS = ["fits use tol = 1e-10 so that the one-vs-rest rows and the separate binary fits agree to 1e-6",
               "binary probabilities are only required to be a monotone function of the decision value summing to one (not a specific link)"]

MODELS = ["SparseLogisticRegression", "LinearSVC", "GLE-Logistic", "GLE-QuadraticSVC"]


def shards(tier):
    n = 60 if tier == "quick" else 400
    return [dict(id=m, model=m, n=n) for m in MODELS]


@st.composite
def case_strategy(draw, model):
    n = draw(st.integers(8, 24))
    p = draw(st.integers(2, 6))
    K = draw(gen.hnp.arrays(np.int16, (n, p), elements=st.integers(-3000, 3000)))
    X = K.astype(float) / 1000.
    k = draw(st.sampled_from([2, 2, 3, 4]))
    kind = draw(st.sampled_from(["str", "int", "pm1", "01"])) if k == 2 else draw(st.sampled_from(["str", "int"]))
    if kind == "str":
        labels = draw(st.permutations(["a", "b", "c", "dd", "zebra", "B"]))[:k]
    elif kind == "int":
        labels = draw(st.permutations([-3, -1, 0, 1, 2, 7, 10, 42]))[:k]
    elif kind == "pm1":
        labels = [-1, 1]
    else:
        labels = [0, 1]
    labels = sorted(labels, key=lambda v: (str(type(v)), v))
    # class index per sample, correlated with X, every class present
    W = np.array([[draw(st.sampled_from([0., 1., -1., 2.])) for _ in range(p)] for _ in range(k)])
    off = np.array([draw(st.sampled_from([0., 1., -1.])) for _ in range(k)])
    noise = draw(gen.hnp.arrays(np.int16, (n, k), elements=st.integers(-1000, 1000))).astype(float) / 1000.
    idx = np.argmax(X @ W.T + off + noise, axis=1)
    for c in range(k):
        if c not in idx:
            idx[c % n] = c
    for c in range(k):     # re-check after forcing
        if c not in idx:
            idx[(c + k) % n] = c
    case = dict(model=model, X=X.tolist(), idx=idx.tolist(), labels=labels, fit_intercept=draw(st.booleans()) if "SVC" not in model else False,
                storage=draw(st.sampled_from(["dense", "csc"])), frac=draw(st.sampled_from([.02, .1, .3])), C=draw(st.sampled_from([.1, 1.])))
    # renaming: a permutation of positions -> new label for old label i is labels2[perm[i]]
    if kind in ("pm1", "01") or draw(st.booleans()):
        case["labels2"] = labels2 = draw(st.sampled_from([["x", "y", "z", "zz"][:k], [5, 6, 8, 9][:k], [-9, -2, 3, 11][:k]]))
    else:
        case["labels2"] = labels
    case["perm"] = list(draw(st.permutations(list(range(k)))))
    case["pred_scales"] = draw(st.sampled_from([[], [1e3], [1e3, 1e6], [-1e4], [30.]]))
    return case


def strategy(shard):
    return case_strategy(shard["model"])


def build(case, alpha):
    import skglm
    from skglm.datafits import Logistic, QuadraticSVC
    from skglm.penalties import L1, IndicatorBox
    from skglm.solvers import AndersonCD, ProxNewton
    m = case["model"]
    fi = case["fit_intercept"]
    if m == "SparseLogisticRegression":
        return skglm.SparseLogisticRegression(alpha=alpha, tol=1e-10, max_iter=200, fit_intercept=fi)
    if m == "LinearSVC":
        return skglm.LinearSVC(C=case["C"], tol=1e-10, max_iter=500, fit_intercept=False)
    if m == "GLE-Logistic":
        return skglm.GeneralizedLinearEstimator(Logistic(), L1(alpha), ProxNewton(tol=1e-10, max_iter=200, fit_intercept=fi))
    return skglm.GeneralizedLinearEstimator(QuadraticSVC(), IndicatorBox(case["C"]), AndersonCD(tol=1e-10, max_iter=500, fit_intercept=False))


def judge_outputs(m, Xs, dec, cl, k, n, sig, scl):
    viol = []
    tag = "" if scl == 1. else f" (prediction inputs = {scl:g} x training inputs)"
    with np.errstate(all="ignore"):
        pred = np.asarray(m.predict(Xs))
    if pred.shape != (n,):
        viol.append(Viol(dict(sig, kind="predict-shape"), f"predict returns shape {pred.shape} for {n} samples ({k} classes){tag}"))
        return viol
    tie = 1e-6 * max(1., abs(scl))
    if k == 2:
        want = np.where(dec > 0, cl[1], cl[0])
        clear = np.abs(dec) > tie
    else:
        want = np.array(cl)[np.argmax(dec, axis=1)]
        srt = np.sort(dec, axis=1)
        clear = (srt[:, -1] - srt[:, -2]) > tie
    if np.any(pred[clear].astype(str) != want[clear].astype(str)):
        i = int(np.flatnonzero(pred[clear].astype(str) != want[clear].astype(str))[0])
        viol.append(Viol(dict(sig, kind="predict-vs-decision"), f"predict gives {pred[clear][i]!r} where the decision function selects {want[clear][i]!r} (classes_ {cl}){tag}"))
    # probabilities
    if hasattr(m, "predict_proba"):
        with np.errstate(all="ignore"):
            P_ = np.asarray(m.predict_proba(Xs), float)
        if P_.shape != (n, k) or not np.all(np.isfinite(P_)) or np.any(P_ < 0) or np.any(P_ > 1) or np.max(np.abs(P_.sum(1) - 1)) > 1e-12:
            viol.append(Viol(dict(sig, kind="proba-not-a-distribution", rescaled=(scl != 1.)),
                             f"predict_proba rows are not probability vectors (shape {P_.shape}, row sums {P_.sum(1)[:3].tolist()}){tag}"))
        else:
            D = np.c_[-dec, dec] if k == 2 else dec
            for c in range(k):
                o = np.argsort(D[:, c], kind="stable")
                if k == 2:
                    pc = P_[o, c]
                    dd = D[o, c]
                    bad = np.flatnonzero((np.diff(pc) < -1e-12) & (np.diff(dd) > 1e-9 * max(1., abs(scl))))
                    if len(bad):
                        viol.append(Viol(dict(sig, kind="proba-not-monotone"), f"binary probability of class {cl[c]!r} decreases while its decision value increases{tag}"))
                        break
            if k > 2:
                # OvR normalisation: p_k proportional to sigmoid(decision_k)
                S = 1 / (1 + np.exp(-dec))
                ref = S / S.sum(1, keepdims=True)
                if np.max(np.abs(ref - P_)) > 1e-9:
                    viol.append(Viol(dict(sig, kind="proba-vs-decision"), "multiclass probabilities are not the normalised logistic transform of the decision values "
                                     f"(max dev {np.max(np.abs(ref - P_)):.2e}){tag}"))
    return viol


def check_case(case):
    bootstrap()
    from scipy import sparse
    X = np.array(case["X"], float)
    idx = np.array(case["idx"])
    labels = case["labels"]
    k = len(labels)
    y = np.array([labels[i] for i in idx], dtype=object if isinstance(labels[0], str) else None)
    if isinstance(labels[0], str):
        y = y.astype(str)
    n, p = X.shape
    Xin = sparse.csc_matrix(X) if case["storage"] == "csc" else X
    ypm = np.where(idx == idx.max(), 1., -1.)
    alpha = float(np.abs(X.T @ ypm).max() / (2 * n) * case["frac"]) or .1
    sig = dict(model=case["model"], n_classes=k, fit_intercept=case["fit_intercept"], storage=case["storage"])
    classes = [case["model"], f"classes={k}"]
    viol = []

    def fit(yy):
        m = build(case, alpha)
        with warnings.catch_warnings():
            warnings.simplefilter("ignore")
            m.fit(Xin, yy)
        return m
    try:
        m = fit(y)
    except Exception as e:  # noqa
        return result([Viol(dict(sig, kind="exception", exc=type(e).__name__, where="fit"), f"{case['model']}.fit with labels {labels} raised {type(e).__name__}: {str(e)[:200]}")], True, classes)
    cl = list(m.classes_)
    if sorted(map(str, cl)) != sorted(map(str, labels)):
        viol.append(Viol(dict(sig, kind="classes_"), f"classes_ = {cl} for labels {labels}"))
        return result(viol, True, classes)
    def decision(mm, Xs=None, Xd=None):
        Xs = Xin if Xs is None else Xs
        Xd = X if Xd is None else Xd
        if hasattr(mm, "decision_function"):
            return np.asarray(mm.decision_function(Xs), float)
        d = np.asarray(Xd @ np.asarray(mm.coef_, float).reshape(-1, p).T + np.asarray(mm.intercept_, float), float)   # the fitted linear model(s)
        return d.ravel() if d.shape[1] == 1 else d
    dec = None
    # the outputs are judged on the training inputs and on rescaled copies of them (prediction-time inputs are
    # arbitrary: decision values far outside [-700, 700] must still give finite probabilities summing to one)
    for scl in [1.] + list(case.get("pred_scales", [])):
        Xd_ = X * scl
        Xs_ = sparse.csc_matrix(Xd_) if case["storage"] == "csc" else Xd_
        with np.errstate(all="ignore"):
            d_ = decision(m, Xs_, Xd_)
        if scl == 1.:
            dec = d_
        if not np.all(np.isfinite(d_)):
            continue
        if scl != 1.:
            if k > 2 and np.max(np.abs(d_)) > 500:
                continue    # sigmoid(d) underflows for every class: OvR normalisation 0/0 is the float range, not the property
            classes.append("rescaled-prediction-inputs")
        viol += judge_outputs(m, Xs_, d_, cl, k, n, sig, scl)
        if viol:
            break
    if viol:
        return result(viol, True, classes)
    pred = np.asarray(m.predict(Xin))
    if k == 2:
        clear = np.abs(dec) > 1e-6
    else:
        srt = np.sort(dec, axis=1)
        clear = (srt[:, -1] - srt[:, -2]) > 1e-6
    # relabelling
    perm = case["perm"]
    labels2 = case["labels2"]
    new_for_old = {str(labels[i]): labels2[perm[i]] for i in range(k)}
    y2 = np.array([new_for_old[str(v)] for v in y])
    if not (list(map(str, labels2)) == list(map(str, labels)) and perm == sorted(perm)):
        try:
            m2 = fit(y2)
        except Exception as e:  # noqa
            viol.append(Viol(dict(sig, kind="exception", exc=type(e).__name__, where="refit-renamed"), f"fit after renaming labels to {sorted(set(y2.tolist()), key=str)} raised {type(e).__name__}: {str(e)[:160]}"))
            return result(viol, True, classes)
        cl2 = list(m2.classes_)
        # position of old class i in the new sorted order
        pos2 = [list(map(str, cl2)).index(str(new_for_old[str(c)])) for c in cl]
        dec2 = decision(m2)
        coef1, coef2 = np.asarray(m.coef_, float), np.asarray(m2.coef_, float)
        b1, b2 = np.ravel(np.asarray(m.intercept_, float)), np.ravel(np.asarray(m2.intercept_, float))
        tol_c = 1e-5 * (1 + np.max(np.abs(coef1)))
        if k == 2:
            sgn = 1. if pos2 == [0, 1] else -1.
            ok = np.max(np.abs(coef1 - sgn * coef2)) <= tol_c and np.max(np.abs(dec - sgn * dec2)) <= 1e-5 * (1 + np.max(np.abs(dec))) \
                and abs(b1[0] - sgn * b2[0]) <= 1e-5 * (1 + abs(b1[0]))
        else:
            ok = np.max(np.abs(coef1 - coef2[pos2])) <= tol_c and np.max(np.abs(dec - dec2[:, pos2])) <= 1e-5 * (1 + np.max(np.abs(dec)))
            if b1.size == k and b2.size == k:
                ok = ok and np.max(np.abs(b1 - b2[pos2])) <= 1e-5 * (1 + np.max(np.abs(b1)))
        if not ok:
            viol.append(Viol(dict(sig, kind="renaming-changes-model", order_preserving=(pos2 == sorted(pos2))),
                             f"renaming labels {labels} -> {[new_for_old[str(c)] for c in labels]} changes the fitted model beyond the renaming "
                             f"(coef_ {coef1.round(4).tolist()} vs {coef2.round(4).tolist()})"))
        else:
            pred2 = np.asarray(m2.predict(Xin))
            mapped = np.array([str(new_for_old[str(v)]) for v in pred])
            if np.any(mapped[clear] != pred2[clear].astype(str)):
                viol.append(Viol(dict(sig, kind="renaming-changes-predictions"), "predictions after renaming are not the renamed predictions"))
    # one-vs-rest rows are the binary models
    if k > 2 and not viol:
        for c in range(k):
            yb = np.where(np.array(list(map(str, y))) == str(cl[c]), 1, 0)
            try:
                mb = fit(yb)
            except Exception as e:  # noqa
                break
            db = decision(mb)
            dev = float(np.max(np.abs(db - dec[:, c])))
            if dev > 1e-5 * (1 + np.max(np.abs(db))):
                bint = float(np.ravel(mb.intercept_)[0])
                const = float(np.std(db - dec[:, c])) < 1e-6 * (1 + abs(bint))
                viol.append(Viol(dict(sig, kind="ovr-row-differs-from-binary-fit", nature="constant-offset(intercept)" if const else "other"),
                                 f"decision_function column {c} (class {cl[c]!r}) differs from the binary one-vs-rest fit by {dev:.3e}"
                                 + (f" -- a constant offset equal to the binary intercept {bint:.4f}" if const else "")))
                break
    b = np.ravel(np.asarray(m.intercept_, float))
    nontrivial = (k >= 3 or [str(v) for v in labels2] != [str(v) for v in labels] or perm != sorted(perm)) and (case["fit_intercept"] and np.any(b != 0) or "SVC" in case["model"] or k >= 3)
    return result(viol, nontrivial, classes)
