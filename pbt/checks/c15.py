"""C15 -- solutions transform correctly under the symmetries of the problem."""
import json

import numpy as np
from hypothesis import strategies as st

from .. import gen, problems as P, metamorph as M
from ..common import Viol, result, bootstrap

PROPERTY = "C15"
RULE = ("one case = convex composition + generated data (weights with zeros, non-contiguous groups, tasks, sample "
        "weights) + one transformation: feature permutation (weights, group membership, CSC rebuilt), group "
        "permutation, task permutation, sample permutation, stacking the data set k in {2,3} times (1/n-normalised "
        "losses only), (y, alpha) -> (c y, c alpha) for quadratic losses with positively homogeneous penalties, "
        "X_j -> c X_j with weight_j -> c weight_j. Both problems are solved cold at tol 1e-9 (non-converged = "
        "inconclusive); the transformed solution is mapped back and compared ON THE ORIGINAL PROBLEM: objectives "
        "within the subgradient-inequality margin, coefficients within the strong-convexity bound when mu > 0. "
        "Non-trivial: the solution has mixed support and the transformation moves a support feature / is not the "
        "identity.")
ASSUMPTIONS = ["convex penalties only (non-convex ones have several stationary points; storage order may legitimately select another)",
               "stacking only for losses normalised by the number of samples"]

COMPS = [
    ("scalar", "AndersonCD", "Quadratic", "WeightedL1"), ("scalar", "AndersonCD", "Quadratic", "L1_plus_L2"),
    ("scalar", "AndersonCD", "Logistic", "WeightedL1"), ("scalar", "AndersonCD", "Huber", "L1"),
    ("scalar", "AndersonCD", "WeightedQuadratic", "L1"),
    ("scalar", "ProxNewton", "Logistic", "WeightedL1"), ("scalar", "ProxNewton", "Poisson", "L1"),
    ("scalar", "GramCD", "Quadratic", "WeightedL1"), ("scalar", "FISTA", "Quadratic", "L1"),
    ("group", "GroupBCD", "QuadraticGroup", "WeightedGroupL2"), ("group", "GroupBCD", "LogisticGroup", "WeightedGroupL2"),
    ("group", "GroupProxNewton", "LogisticGroup", "WeightedGroupL2"),
    ("group", "GroupBCD", "QuadraticGroup", "WeightedL1GroupL2"),
    ("multitask", "MultiTaskBCD", "QuadraticMultiTask", "L2_1"),
    ("scalar", "ProxNewton", "Cox-breslow", "L1"), ("scalar", "ProxNewton", "Cox-efron", "L1"),
]
QUICK = {0, 1, 2, 5, 7, 8, 9, 10, 11, 12, 13, 14, 15}


def shards(tier):
    n = 150 if tier == "quick" else 600
    out = []
    for i, (k, s, f, p) in enumerate(COMPS):
        if tier == "quick" and i not in QUICK:
            continue
        out.append(dict(id=f"{s}-{f}-{p}", kind=k, solver=s, fam=f, pen=p, n=n, cost=n * (4 if k != "scalar" else 2)))
    return out


def transforms_for(kind, fam, pen):
    t = ["feature-perm", "sample-perm"]
    if fam in ("Quadratic", "Logistic", "Huber", "Poisson", "Gamma", "WeightedQuadratic", "QuadraticGroup", "LogisticGroup", "QuadraticMultiTask"):
        t.append("stack")
    if fam == "Cox-breslow":
        # the Breslow partial likelihood / n gains the constant log(k) * (fraction of events) under k-fold stacking;
        # Efron's tie correction is not invariant (not claimed)
        t.append("stack")
    if fam in ("Quadratic", "QuadraticGroup", "QuadraticMultiTask", "WeightedQuadratic") and pen in ("L1", "WeightedL1", "WeightedGroupL2", "L2_1", "WeightedL1GroupL2"):
        t.append("scale-y")
    if pen in ("WeightedL1", "WeightedGroupL2"):
        t.append("scale-feature")
    if kind == "group":
        t.append("group-perm")
    if kind == "multitask":
        t.append("task-perm")
    return t


@st.composite
def case_strategy(draw, shard):
    kind, solver, fam, pen = shard["kind"], shard["solver"], shard["fam"], shard["pen"]
    sizes = (4, 14, 2, 8)
    if kind == "scalar":
        if solver == "FISTA":
            case = draw(P.scalar_case("AndersonCD", fam, pen, sizes=sizes, starts=False, degenerate=False))
            case["solver"] = dict(name="FISTA", max_iter=100, tol=1e-9, opt_strategy="subdiff")
        else:
            case = draw(P.scalar_case(solver, fam, pen, sizes=sizes, starts=False, degenerate=False))
        if "positive" in case["penalty"] and draw(st.booleans()):
            case["penalty"]["positive"] = False
    elif kind == "group":
        case = draw(P.group_case(solver, fam, sizes=sizes, starts=False))
        if pen == "WeightedL1GroupL2":
            p = np.array(case["X"]).shape[1]
            sp = case["penalty"]
            case["penalty"] = dict(name=pen, alpha=sp["alpha"] * .5, weights_groups=sp["weights"], weights_features=draw(gen.weights(p)),
                                   groups=sp["groups"], n_features=p)
            case["solver"]["ws_strategy"] = "fixpoint"
    else:
        case = draw(P.multitask_case(pen, sizes=sizes, starts=False))
    case["init"] = None
    if fam in ("Logistic", "LogisticGroup", "Poisson") or fam.startswith("Cox"):
        # zero weights = unpenalised directions: (quasi-)separable data then has no finite minimiser and the tight
        # solves never converge; symmetric-solution claims need a minimiser
        for key in ("weights", "weights_groups", "weights_features"):
            if key in case["penalty"]:
                case["penalty"][key] = [w if w > 0 else .5 for w in case["penalty"][key]]
        if "fit_intercept" in case["solver"]:
            case["solver"]["fit_intercept"] = False
    case["transform"] = draw(st.sampled_from(transforms_for(kind, fam, pen)))
    X = np.array(case["X"])
    n, p = X.shape
    tr = case["transform"]
    if tr == "feature-perm":
        case["perm"] = list(draw(st.permutations(list(range(p)))))
    elif tr == "sample-perm":
        case["perm"] = list(draw(st.permutations(list(range(n)))))
    elif tr == "stack":
        case["k"] = draw(st.sampled_from([2, 3]))
    elif tr in ("scale-y",):
        case["c"] = draw(st.sampled_from([.5, 2., 3., .1]))
    elif tr == "scale-feature":
        case["c"] = draw(st.sampled_from([.5, 2., 10., .1]))
        case["j"] = draw(st.integers(0, (len(case["penalty"]["groups"]) if kind == "group" else p) - 1))
    elif tr == "group-perm":
        case["perm"] = list(draw(st.permutations(list(range(len(case["penalty"]["groups"]))))))
    elif tr == "task-perm":
        case["perm"] = list(draw(st.permutations(list(range(np.array(case["y"]).shape[1])))))
    return case


def strategy(shard):
    return case_strategy(shard)


def transformed(case):
    """-> (case2, back) where back maps a solution of case2 to a solution of `case`"""
    c = json.loads(json.dumps({k: v for k, v in case.items() if k not in ("transform", "perm", "k", "c", "j")}))
    X = np.array(case["X"], float)
    y = np.array(case["y"], float)
    n, p = X.shape
    tr = case["transform"]
    s = case["solver"]
    fi = bool(s.get("fit_intercept", False)) and s["name"] not in ("GramCD", "FISTA", "LBFGS")
    pen = c["penalty"]
    ident = lambda w: w  # noqa
    if tr == "feature-perm":
        pi = np.array(case["perm"])
        c["X"] = X[:, pi].tolist()
        inv = np.argsort(pi)          # old feature j sits at new position inv[j]
        if "weights" in pen and pen["name"] in ("WeightedL1", "WeightedMCPenalty"):
            pen["weights"] = [pen["weights"][j] for j in pi]
        if "weights_features" in pen:
            pen["weights_features"] = [pen["weights_features"][j] for j in pi]
        if "groups" in pen:
            pen["groups"] = [[int(inv[j]) for j in g] for g in pen["groups"]]
            if c["datafit"] and "groups" in c["datafit"]:
                c["datafit"]["groups"] = pen["groups"]

        def back(w):
            w = np.asarray(w, float)
            out = w.copy()
            out[pi] = w[:p]
            return out
        return c, back
    if tr == "sample-perm":
        sg = np.array(case["perm"])
        c["X"] = X[sg].tolist()
        c["y"] = y[sg].tolist()
        if c["datafit"] and "sample_weights" in c["datafit"]:
            c["datafit"]["sample_weights"] = [c["datafit"]["sample_weights"][i] for i in sg]
        return c, ident
    if tr == "stack":
        k = case["k"]
        c["X"] = np.vstack([X] * k).tolist()
        c["y"] = (np.vstack([y] * k) if y.ndim == 2 else np.tile(y, k)).tolist()
        if c["datafit"] and "sample_weights" in c["datafit"]:
            c["datafit"]["sample_weights"] = c["datafit"]["sample_weights"] * k
        return c, ident
    if tr == "scale-y":
        cc = case["c"]
        c["y"] = (y * cc).tolist()
        if "alpha" in pen:
            pen["alpha"] = pen["alpha"] * cc
        return c, (lambda w: np.asarray(w, float) / cc)
    if tr == "scale-feature":
        cc, j = case["c"], case["j"]
        X2 = X.copy()
        if "groups" in pen:
            idx = pen["groups"][j]
            X2[:, idx] *= cc
            pen["weights"] = [w * cc if g == j else w for g, w in enumerate(pen["weights"])]
        else:
            idx = [j]
            X2[:, j] *= cc
            pen["weights"] = [w * cc if k == j else w for k, w in enumerate(pen["weights"])]
        c["X"] = X2.tolist()

        def back(w):
            out = np.asarray(w, float).copy()
            out[idx] = out[idx] * cc
            return out
        return c, back
    if tr == "group-perm":
        gp = case["perm"]
        pen["groups"] = [pen["groups"][g] for g in gp]
        for key in ("weights", "weights_groups"):
            if key in pen:
                pen[key] = [pen[key][g] for g in gp]
        c["datafit"]["groups"] = pen["groups"]
        return c, ident
    if tr == "task-perm":
        tp = np.array(case["perm"])
        c["y"] = y[:, tp].tolist()

        def back(W):
            W = np.asarray(W, float)
            out = np.empty_like(W)
            out[:, tp] = W
            return out
        return c, back
    raise KeyError(tr)


def check_case(case):
    bootstrap()
    tr = case["transform"]
    base = {k: v for k, v in case.items() if k not in ("transform", "perm", "k", "c", "j")}
    s = case["solver"]
    sig = dict(solver=s["name"], datafit=(case["datafit"] or {}).get("name", "None"), penalty=case["penalty"]["name"], transform=tr,
               storage=case["storage"], fit_intercept=bool(s.get("fit_intercept", False)), unsorted_groups=P.unsorted_groups(case))
    classes = [s["name"], tr]
    ref = M.tight(base)
    c2, back = transformed(case)
    c2 = M.tight(c2)
    o1, st1 = M.converged(ref)
    if st1 != "ok":
        return result([], False, classes + [f"reference-{st1}(inconclusive)"])
    o2, st2 = M.converged(c2)
    if st2 == "exception":
        return result([Viol(dict(sig, kind="exception", exc=type(o2.exc).__name__),
                            f"{s['name']}: the {tr}-transformed problem raises {type(o2.exc).__name__}: {str(o2.exc)[:160]} while the original solves")], True, classes)
    if st2 != "ok":
        return result([], False, classes + ["transformed-not-converged(inconclusive)"])
    w_back = back(o2.w)
    tol = ref["solver"]["tol"]
    factor = 2.
    if tr == "scale-y":
        factor = 2. * max(1., 1. / case["c"])
    if tr == "scale-feature":
        factor = 2. * max(1., case["c"], 1. / case["c"])
    if s["name"] == "FISTA":
        factor *= 2
    if s.get("ws_strategy") == "fixpoint":
        L = P.group_lipschitz(ref) if "groups" in ref["penalty"] else P.coord_lipschitz(ref)
        factor *= max(1., float(np.max(L)))
    viol = M.compare(ref, o1.w, w_back, tol, f"{s['name']} under {tr}", sig, Viol, factor=factor)
    w1 = np.asarray(o1.w, float)
    p = np.array(case["X"]).shape[1]
    supp = np.abs(w1[:p]).reshape(p, -1).sum(1) != 0
    mixed = bool(supp.any() and (~supp).any())
    moved = True
    if tr in ("feature-perm",):
        pi = np.array(case["perm"])
        moved = bool(np.any(pi[supp[pi]] != np.arange(p)[supp[pi]])) if supp.any() else False
    if tr in ("sample-perm", "group-perm", "task-perm"):
        moved = list(case["perm"]) != sorted(case["perm"])
    return result(viol, mixed and moved, classes + (["mixed-support"] if mixed else []))
