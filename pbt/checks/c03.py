"""C03 -- monotone descent under every budget; accepted extrapolations never hurt; reweighting descends."""
import json
import math

import numpy as np
from hypothesis import strategies as st

from .. import gen, problems as P, refmath as R
from ..common import Viol, result, bootstrap
from . import c01

PROPERTY = "C03"
RULE = ("one case = composition (descent solver, convex penalty or MCP/SCAD inside the well-posed gamma range, "
        "l0.5 / l2/3 / log-sum) + generated data + one start point + a budget family: A = max_iter 1..8 with a fixed "
        "inner budget, B = max_iter 1 with max_epochs (max_pn_iter / GramCD max_iter) 1..20. The same deterministic "
        "trajectory is cut at every budget. Oracles, with F the refmath objective recomputed from the returned "
        "coefficients alone (intercept unpenalised, +inf if infeasible): F(w_k) <= F(w_{k-1}) (+1e-9 relative "
        "round-off) and F(w_1) <= F(start); differential: the same budgets with a never-extrapolating accelerator "
        "(harness-side substitution / use_acc=False) give the plain iterates, and at the first budget where both "
        "differ F_acc <= F_plain. Reweighting: IterativeReweightedL1 history is non-increasing from the first "
        "reweight on and equals the recomputed non-convex loss. Non-trivial: the objective strictly decreased at "
        "least once and the family crossed an extrapolation step (budget >= 7), or >= 2 reweights changed the loss.")
ASSUMPTIONS = ["trajectories are deterministic (numba RNG seeded), so budget-k runs are prefixes of budget-(k+1) runs",
               "MCP / SCAD gamma above weight_j / L_j (+1): every coordinate step minimises a convex majoriser",
               "ProxNewton cases flagged by the wild-step probe (saturated start, KF-PN-WILD-STEP) are excluded from descent judgement"]

COMPS = [
    ("scalar", "AndersonCD", "Quadratic", "L1"), ("scalar", "AndersonCD", "Quadratic", "WeightedL1"),
    ("scalar", "AndersonCD", "Logistic", "L1"), ("scalar", "AndersonCD", "Quadratic", "MCPenalty"),
    ("scalar", "AndersonCD", "Huber", "L1_plus_L2"), ("scalar", "AndersonCD", "Quadratic", "L0_5"),
    ("scalar", "AndersonCD", "Logistic", "WeightedL1"), ("scalar", "AndersonCD", "Quadratic", "SCAD"),
    ("scalar", "AndersonCD", "WeightedQuadratic", "LogSumPenalty"), ("scalar", "AndersonCD", "QuadraticSVC", "IndicatorBox"),
    ("scalar", "AndersonCD", "Quadratic", "L2_3"), ("scalar", "AndersonCD", "Logistic", "WeightedMCPenalty"),
    ("scalar", "GramCD", "Quadratic", "L1"), ("scalar", "GramCD", "Quadratic", "WeightedL1"), ("scalar", "GramCD", "Quadratic", "MCPenalty"),
    ("scalar", "ProxNewton", "Logistic", "L1"), ("scalar", "ProxNewton", "Poisson", "L1_plus_L2"),
    ("scalar", "ProxNewton", "Quadratic", "WeightedL1"), ("scalar", "ProxNewton", "Cox-efron", "L1"),
    ("group", "GroupBCD", "QuadraticGroup", "WeightedGroupL2"), ("group", "GroupBCD", "LogisticGroup", "WeightedGroupL2"),
    ("group", "GroupProxNewton", "LogisticGroup", "WeightedGroupL2"),
    ("multitask", "MultiTaskBCD", "QuadraticMultiTask", "L2_1"), ("multitask", "MultiTaskBCD", "QuadraticMultiTask", "BlockMCPenalty"),
]
QUICK = {0, 1, 2, 3, 5, 6, 8, 9, 12, 13, 15, 17, 19, 20, 21, 22}
REWEIGHT = ["L0_5", "L2_3", "LogSumPenalty"]


def shards(tier):
    n = 120 if tier == "quick" else 500
    out = []
    for i, (k, s, f, p) in enumerate(COMPS):
        if tier == "quick" and i not in QUICK:
            continue
        nn = n * 4 if f == "QuadraticSVC" else n
        out.append(dict(id=f"{s}-{f}-{p}", kind=k, solver=s, fam=f, pen=p, n=nn, cost=nn * (4 if k != "scalar" else 2)))
    out += [dict(id=f"reweight-{p}", kind="reweight", pen=p, n=n, cost=n * 3) for p in REWEIGHT]
    return out


@st.composite
def family_case(draw, base, solver):
    case = draw(base)
    s = case["solver"]
    fam = draw(st.sampled_from(["A", "B", "B"]))
    s["tol"] = 1e-14       # never stop on tolerance: budgets decide
    inner = "max_epochs" if "max_epochs" in s else ("max_pn_iter" if "max_pn_iter" in s else None)
    if solver == "GramCD":
        case["family"] = dict(kind="B", knob="max_iter", budgets=list(range(1, draw(st.sampled_from([8, 15, 20])) + 1)))
        s["use_acc"] = True
        s["greedy_cd"] = draw(st.booleans())
    elif fam == "A" or inner is None:
        if inner:
            s[inner] = draw(st.sampled_from([1, 3, 6, 7, 8, 13, 14, 30]))
        case["family"] = dict(kind="A", knob="max_iter", budgets=list(range(1, draw(st.sampled_from([4, 8])) + 1)))
    else:
        s["max_iter"] = 1
        case["family"] = dict(kind="B", knob=inner, budgets=list(range(1, draw(st.sampled_from([8, 15, 20])) + 1)))
    if solver == "MultiTaskBCD":
        s["use_acc"] = True
    return case


@st.composite
def reweight_case(draw, pen):
    m = draw(gen.matrix(n_min=4, n_max=16, p_min=2, p_max=8, degenerate=False, scales=False))
    X = np.array(m["X"])
    n, p = X.shape
    y = draw(gen.planted_target(X))
    g0 = np.abs(X.T @ np.array(y)) / n
    amax = float(g0.max()) or 1.
    case = dict(kind="reweight", pen=pen, X=m["X"], y=y, alpha=float(amax * draw(gen.frac_log(-2.5, -.3, 22))),
                n_reweights=draw(st.integers(2, 6)), storage=draw(st.sampled_from(["dense", "csc"])))
    if pen == "LogSumPenalty":
        case["eps"] = draw(gen.pos_float(-2, 0))
    return case


def strategy(shard):
    s = shard.get("solver")
    if shard["kind"] == "reweight":
        return reweight_case(shard["pen"])
    if shard["kind"] == "scalar":
        sizes = (8, 40, 2, 10) if shard["fam"] == "QuadraticSVC" else (3, 16, 1, 10)
        base = P.scalar_case(s, shard["fam"], shard["pen"], sizes=sizes, generous=False)
        if shard["fam"] == "QuadraticSVC" and s == "AndersonCD":
            base = st.one_of(base, P.svc_extrapolation_case())
        return family_case(base, s)
    if shard["kind"] == "group":
        return family_case(P.group_case(s, shard["fam"], generous=False), s)
    return family_case(P.multitask_case(shard["pen"], generous=False), s)


# ---------------------------------------------------------------------------------------------
class _Patch:
    """harness-side substitution of the accelerator *name* in the solver modules by a never-extrapolating one"""

    def __enter__(self):
        import skglm.solvers.anderson_cd as a
        import skglm.solvers.group_bcd as g
        from skglm.utils.anderson import AndersonAcceleration

        class Never(AndersonAcceleration):
            def extrapolate(self, w, Xw):
                return w, Xw, False
        self.mods = [(a, a.AndersonAcceleration), (g, g.AndersonAcceleration)]
        a.AndersonAcceleration = Never
        g.AndersonAcceleration = Never
        return self

    def __exit__(self, *exc):
        for m, orig in self.mods:
            m.AndersonAcceleration = orig


def F_of(case, w):
    if case["solver"]["name"] == "MultiTaskBCD":
        return P.multitask_objective(case, w)
    return P.objective(case, w)


def start_point(case):
    s = case["solver"]
    X = np.array(case["X"], float)
    if case.get("init") is not None:
        return np.array(case["init"]["w"], float)
    fi = bool(s.get("fit_intercept", False)) and s["name"] not in ("GramCD",)
    nv = X.shape[0] if (case["datafit"] and case["datafit"]["name"] == "QuadraticSVC") else X.shape[1]
    if s["name"] == "MultiTaskBCD":
        return np.zeros((nv + fi, np.array(case["y"]).shape[1]))
    return np.zeros(nv + fi)


def with_budget(case, k, plain=False):
    c = json.loads(json.dumps(case))
    c["solver"][case["family"]["knob"]] = k
    if plain and c["solver"]["name"] in ("GramCD", "MultiTaskBCD"):
        c["solver"]["use_acc"] = False
    return c


def leq(a, b, scale):
    """a <= b up to relative round-off"""
    if math.isinf(b) and b > 0:
        return True
    if math.isnan(a) or math.isnan(b):
        return False
    return a <= b + 1e-9 * (abs(a) + abs(b) + scale) + 1e-300


def check_case(case):
    bootstrap()
    if case.get("kind") == "reweight":
        return check_reweight(case)
    s = case["solver"]
    name = s["name"]
    fam = case["family"]
    sig = dict(solver=name, datafit=(case["datafit"] or {}).get("name", "None"), penalty=case["penalty"]["name"],
               storage=case["storage"], family=fam["kind"], fit_intercept=bool(s.get("fit_intercept", False)),
               positive=bool(case["penalty"].get("positive", False)), unsorted_groups=P.unsorted_groups(case))
    classes = [name, "family-" + fam["kind"], "warm" if case.get("init") else "cold"]
    y = np.asarray(case["y"], float)
    scale = float((y ** 2).sum() / max(1, y.shape[0])) if not (case["datafit"] and case["datafit"]["name"] == "Cox") else 1.
    try:        # magnitude of the predictor terms that cancel in the loss (y = 0 and w_start != 0: F is pure round-off)
        Xm = np.abs(np.array(case["X"], float))
        w0m = np.abs(np.asarray(start_point(case), float))
        if not (case["datafit"] and case["datafit"]["name"] == "QuadraticSVC") and w0m.shape[0] >= Xm.shape[1]:
            scale += float(np.mean((Xm @ w0m[:Xm.shape[1]]) ** 2))
    except Exception:  # noqa
        pass
    F0 = F_of(case, start_point(case))
    if F0 == -math.inf or F0 != F0:
        # the objective itself underflows at the start (Cox: log(sum exp(-1000)) = -inf): no descent statement to judge
        return result([], False, classes + ["objective-underflow-at-start(inconclusive)"])
    viol = []
    Fs, ws = [], []
    for k in fam["budgets"]:
        out = P.run(with_budget(case, k))
        if out.exc is not None:
            return result([], False, classes + [f"exception:{type(out.exc).__name__}(C13)"])
        if not np.all(np.isfinite(out.w)):
            return result([], False, classes + ["non-finite-output(C04)"])
        Fs.append(F_of(case, out.w))
        ws.append(np.asarray(out.w, float))
    decreased = False
    prev, prev_lbl = F0, "start"
    w_from = start_point(case)
    for (k, Fk), wk in zip(zip(fam["budgets"], Fs), ws):
        if not leq(Fk, prev, scale):
            # KF-PN-WILD-STEP-ASCENT: the observed ascent is the implementation's symptom; the root cause must be
            # confirmed by reference maths at the point the ascending step starts at (family A: the previous budget's
            # output; family B: the start): a vanishing-curvature Newton step.  (A probe that RUNS the code to see
            # "huge steps" let an overshooting line search -- seed C03-3 -- hide behind the finding, and misses real
            # instances whose accepted step is merely 20x too long after the line search's halvings.)
            wild = c01.predicted_wild_step(case, w_from) if name in ("ProxNewton", "GroupProxNewton") else False
            period = (fam["kind"] == "B" and k in (7, 13, 14)) or (fam["kind"] == "A" and s.get("max_epochs") in (7, 13, 14))
            viol.append(Viol(dict(sig, kind="objective-increase", vs=("start" if prev_lbl == "start" else "previous-budget"),
                                  at_extrapolation_budget=bool(period), wild_newton_step=wild),
                             f"{name}: true objective increases from {prev!r} ({prev_lbl}) to {Fk!r} at {fam['knob']}={k} "
                             f"(family {fam['kind']}, other budget {dict((kk, vv) for kk, vv in s.items() if kk in ('max_iter', 'max_epochs', 'max_pn_iter'))})"))
            break
        if Fk < prev - 1e-12 * (abs(prev) + scale):
            decreased = True
        prev, prev_lbl = Fk, f"{fam['knob']}={k}"
        if fam["kind"] == "A":
            w_from = wk
    # extrapolation differential
    crossed = False
    # only family B (outer budget 1): there the first budget at which the accelerated and the plain run differ ends
    # exactly at the acceptance of an extrapolation; after later epochs / working sets no ordering is guaranteed
    if not viol and fam["kind"] == "B" and name in ("AndersonCD", "GroupBCD", "GramCD", "MultiTaskBCD"):
        with _Patch():
            for k, Fk, wk in zip(fam["budgets"], Fs, ws):
                outp = P.run(with_budget(case, k, plain=True))
                if outp.exc is not None or not np.all(np.isfinite(outp.w)):
                    break
                if not np.array_equal(np.asarray(outp.w), wk):
                    crossed = True
                    Fp = F_of(case, outp.w)
                    if not leq(Fk, Fp, scale):
                        viol.append(Viol(dict(sig, kind="extrapolation-hurts"),
                                         f"{name}: at {fam['knob']}={k} the accelerated run returns objective {Fk!r} but the same run "
                                         f"without extrapolation returns {Fp!r} (first budget where they differ)"))
                    break
    if crossed:
        classes.append("extrapolation-accepted")
    long_enough = max(fam["budgets"]) >= 7 or (fam["kind"] == "A" and (s.get("max_epochs") or 0) >= 7)
    return result(viol, decreased and long_enough, classes + (["decreased"] if decreased else ["flat"]))


# ---------------------------------------------------------------------------------------------
def check_reweight(case):
    import warnings
    from scipy import sparse
    from skglm.experimental.reweighted import IterativeReweightedL1
    from skglm.penalties import L0_5, L2_3, LogSumPenalty
    from skglm.datafits import Quadratic
    from skglm.solvers import AndersonCD
    X = np.array(case["X"], float)
    y = np.array(case["y"], float)
    a = case["alpha"]
    pen = {"L0_5": lambda: L0_5(a), "L2_3": lambda: L2_3(a), "LogSumPenalty": lambda: LogSumPenalty(a, case.get("eps", 1.))}[case["pen"]]()
    rp = {"L0_5": lambda: R.Lq(a, .5), "L2_3": lambda: R.Lq(a, 2 / 3), "LogSumPenalty": lambda: R.LogSum(a, case.get("eps", 1.))}[case["pen"]]()
    Xin = sparse.csc_matrix(X) if case["storage"] == "csc" else X
    est = IterativeReweightedL1(datafit=Quadratic(), penalty=pen, solver=AndersonCD(tol=1e-10, fit_intercept=False, max_iter=200),
                                n_reweights=case["n_reweights"])
    sig = dict(estimator="IterativeReweightedL1", penalty=case["pen"])
    try:
        with warnings.catch_warnings():
            warnings.simplefilter("ignore")
            est.fit(Xin, y)
    except Exception as e:  # noqa
        return result([Viol(dict(sig, kind="exception", exc=type(e).__name__), f"IterativeReweightedL1.fit raised {e!r}"[:300])], True, ["reweight"])
    hist = np.asarray(est.loss_history_, float)
    viol = []
    final = R.Quadratic().value(y, X @ est.coef_) + rp.value(est.coef_)
    sc = float((y ** 2).sum() / (2 * len(y)))
    if abs(final - hist[-1]) > 1e-9 * (abs(final) + sc):
        viol.append(Viol(dict(sig, kind="history-mismatch"), f"loss_history_[-1]={hist[-1]!r} but the recomputed loss of coef_ is {final!r}"))
    changes = 0
    for k in range(1, len(hist)):
        if hist[k] > hist[k - 1] + 1e-6 * (abs(hist[k - 1]) + sc):
            viol.append(Viol(dict(sig, kind="reweighting-increases-loss"),
                             f"IterativeReweightedL1({case['pen']}): non-convex loss increases from {hist[k - 1]!r} to {hist[k]!r} at reweight {k} "
                             f"(history {hist.tolist()})"))
            break
        if hist[k] < hist[k - 1] - 1e-12 * (abs(hist[k - 1]) + sc):
            changes += 1
    return result(viol, changes >= 1 and len(hist) >= 3, ["reweight", case["pen"], f"changes={changes}"])
