"""C01 -- a returned stop_crit <= tol is a valid first-order optimality certificate."""
import math

import numpy as np
from hypothesis import strategies as st

from .. import problems as P, refmath as R
from ..common import Viol, result, bootstrap

PROPERTY = "C01"
RULE = ("one case = (solver x datafit x penalty composition, generated X / target / hyper-parameters relative to the "
        "problem, dense or CSC, all knobs: tol, p0, ws_strategy, fit_intercept, budgets incl. 0 and the Anderson "
        "period, acceleration / greedy flags, cold start or consistent warm start with support {0,1,few,many,all}). "
        "Oracle: if the returned stop_crit <= tol, the optimality violation recomputed from (X, y, returned w) alone "
        "by refmath, in the measure the run claimed (subdifferential distance or prox fixed-point residual; gradient "
        "norm for LBFGS), must be <= tol*(1+1e-6) + 1e-10*(cancellation scale). Non-trivial: the run claims "
        "convergence AND (w != 0, or an intercept is fitted, or the start was warm). Distinct = SHA-1 of the case.")
ASSUMPTIONS = ["(w_init, Xw_init) are consistent (Xw_init = X w_init + b), as every caller builds them",
               "datafits are initialised on the data before solve (documented usage)",
               "MCP / SCAD gamma inside the well-posed range (gamma > weight_j / L_j (+1 for SCAD))",
               "fix-point certificates of non-convex penalties use the implementation's own prox (judged by C07)"]


def comps(tier):
    out = []

    def add(kind, solver, fam, pen, quick):
        if tier == "thorough" or quick:
            out.append(dict(kind=kind, solver=solver, fam=fam, pen=pen))
    q_cd = {("Quadratic", "L1"), ("Quadratic", "WeightedL1"), ("Quadratic", "MCPenalty"), ("Quadratic", "L1_plus_L2"),
            ("Logistic", "L1"), ("Logistic", "WeightedL1"), ("Huber", "L1"), ("WeightedQuadratic", "WeightedMCPenalty"),
            ("Quadratic", "SCAD"), ("Quadratic", "L0_5"), ("Logistic", "LogSumPenalty"), ("QuadraticSVC", "IndicatorBox"),
            ("Quadratic", "PositiveConstraint"), ("Logistic", "L2_3")}
    for fam in P.CD_DATAFITS:
        for pen in P.SCALAR:
            if fam == "QuadraticSVC" and pen not in ("IndicatorBox", "PositiveConstraint"):
                continue
            add("scalar", "AndersonCD", fam, pen, (fam, pen) in q_cd)
    q_pn = {("Logistic", "L1"), ("Poisson", "L1"), ("Gamma", "WeightedL1"), ("Quadratic", "L1_plus_L2"),
            ("Cox-efron", "L1"), ("Logistic", "MCPenalty"), ("Cox-breslow", "L1_plus_L2")}
    for fam in P.PN_DATAFITS:
        for pen in ["L1", "WeightedL1", "L1_plus_L2", "MCPenalty", "WeightedMCPenalty", "SCAD"]:
            add("scalar", "ProxNewton", fam, pen, (fam, pen) in q_pn)
    for pen in ["L1", "WeightedL1", "L1_plus_L2", "MCPenalty", "SCAD", "PositiveConstraint", "WeightedMCPenalty", "L0_5"]:
        add("scalar", "GramCD", "Quadratic", pen, pen in ("L1", "WeightedL1", "MCPenalty"))
    for fam in ["QuadraticGroup", "LogisticGroup"]:
        add("group", "GroupBCD", fam, "WeightedGroupL2", True)
    add("group", "GroupProxNewton", "LogisticGroup", "WeightedGroupL2", True)
    for pen in P.ROW:
        add("multitask", "MultiTaskBCD", "QuadraticMultiTask", pen, pen in ("L2_1", "BlockMCPenalty"))
    for fam in P.LBFGS_DATAFITS:
        add("scalar", "LBFGS", fam, "L2", fam in ("Quadratic", "Logistic"))
    return out


def shards(tier):
    n = 150 if tier == "quick" else 600
    boost = lambda c: 2 if c["solver"] in ("GroupProxNewton", "GroupBCD", "MultiTaskBCD") else 1  # noqa
    return [dict(id=f"{c['solver']}-{c['fam']}-{c['pen']}", n=n * boost(c), cost=n * boost(c) * (3 if c["solver"] in ("GroupBCD", "MultiTaskBCD", "GroupProxNewton") else 1), **c)
            for c in comps(tier)]


def strategy(shard):
    big = (2, 24, 1, 16)
    if shard["kind"] == "scalar":
        if shard["solver"] == "LBFGS":
            return lbfgs_case(shard["fam"])
        return P.scalar_case(shard["solver"], shard["fam"], shard["pen"], sizes=big)
    if shard["kind"] == "group":
        return P.group_case(shard["solver"], shard["fam"])
    return P.multitask_case(shard["pen"])


@st.composite
def lbfgs_case(draw, fam):
    from .. import gen
    m = draw(gen.matrix(n_min=2, n_max=20, p_min=1, p_max=10))
    X = np.array(m["X"])
    case = dict(X=m["X"], flags=m["flags"])
    case["datafit"], case["y"] = P.datafit_spec_and_target(draw, fam, X)
    case["penalty"] = dict(name="L2", alpha=draw(gen.pos_float(-3, 0)))
    case["solver"] = draw(P.solver_spec("LBFGS"))
    case["storage"] = draw(st.sampled_from(["dense", "csc"]))
    case["init"] = None
    return case


def base_sig(case):
    s = case["solver"]
    d = case["datafit"]
    return dict(solver=s["name"], datafit=(d["name"] if d else "None") + ("-efron" if d and d.get("use_efron") else ""),
                penalty=case["penalty"]["name"], storage=case["storage"], ws_strategy=s.get("ws_strategy", s.get("opt_strategy")),
                fit_intercept=bool(s.get("fit_intercept", False)), warm=case.get("init") is not None,
                max_iter_zero=(s.get("max_iter") == 0), unsorted_groups=P.unsorted_groups(case))


def classify(case, out):
    s = case["solver"]
    cl = [s["name"], "csc" if case["storage"].startswith("csc") else "dense",
          "warm" if case.get("init") else "cold", f"ws={s.get('ws_strategy')}", f"icpt={bool(s.get('fit_intercept', False))}"]
    if s.get("max_epochs") in (6, 7, 13, 14):
        cl.append("anderson-period-budget")
    return cl


DRIFT_MAX = 1e-6      # relative |Xw_buffer - (X w + b)| accepted as floating-point drift (extrapolation amplifies eps)


def certificate(case, w, strat, eta_buf=None):
    name = case["solver"]["name"]
    if name == "MultiTaskBCD":
        c = P.multitask_certificate(case, w, eta_buf)
        if strat == "fixpoint":
            c = multitask_fixpoint(case, w, c)
        return c
    if name in ("GroupBCD", "GroupProxNewton"):
        c = P.group_certificate(case, w, eta_buf)
        if strat == "fixpoint":
            lips = P.group_lipschitz(case)
            c["vec"] = P.group_fixpoint_vec(case, w, lips, eta_buf)
            c["gscale"] = np.where(lips > 0, c["gscale"] / np.where(lips > 0, lips, 1.), 0.) + 1e-6 * np.array(
                [np.linalg.norm(np.asarray(w)[idx]) for idx in P.ref_penalty(case).groups])
            c["feat"] = float(c["vec"].max())
        return c
    if name == "LBFGS":
        return P.scalar_certificate(case, w, "subdiff")
    impl_pen = None
    if strat == "fixpoint" and not P.ref_penalty(case).convex:
        from ..compose import compiled, make_penalty
        impl_pen = compiled(make_penalty(case["penalty"])[0])
    return P.scalar_certificate(case, w, strat, impl_pen, eta_buf)


def check_case(case):
    bootstrap()
    out, buf, mismatch = P.run_observed(case)
    sig = base_sig(case)
    cl = classify(case, out)
    if out.exc is not None:
        return result([], False, cl + [f"exception:{type(out.exc).__name__}(C13)"])
    tol = case["solver"]["tol"]
    if not (out.stop <= tol):
        return result([], False, cl + ["no-claim"])
    if not np.all(np.isfinite(out.w)):
        return result([Viol(dict(sig, component="non-finite"), f"claims stop_crit={out.stop!r} <= tol={tol} with non-finite coefficients")], True, cl)
    name = case["solver"]["name"]
    strat = case["solver"].get("ws_strategy") or "subdiff"
    if name in ("GramCD", "GroupProxNewton", "LBFGS"):
        strat = "subdiff"
    viol = []
    coef = np.asarray(out.w)
    nz = bool(np.any(coef != 0))
    info = {}

    def judge(c, lim_rel, slack_rel, what, comp_prefix=""):
        lim = tol * (1 + lim_rel)
        exc = c["vec"] - lim - slack_rel * c["gscale"]
        k = int(np.argmax(exc)) if len(exc) else 0
        if len(exc) and exc[k] > 0:
            viol.append(Viol(dict(sig, component=comp_prefix + "feature-gradient"),
                             f"{name}: returned stop_crit={out.stop:.3e} <= tol={tol:g} but the {strat} violation of block {k} {what} is "
                             f"{c['vec'][k]:.3e} (w_k={np.asarray(coef[k]).tolist() if coef.ndim > 1 else coef[k]!r})",
                             violation=float(c["vec"][k]), stop=out.stop, tol=tol))
        if c["icpt"] > lim + slack_rel * c["icpt_scale"]:
            viol.append(Viol(dict(sig, component=comp_prefix + "intercept-gradient"),
                             f"{name}: returned stop_crit={out.stop:.3e} <= tol={tol:g} but |sum_i dloss/deta_i| {what} = {c['icpt']:.3e} at the returned intercept",
                             violation=c["icpt"], stop=out.stop, tol=tol))

    if mismatch:
        viol.append(Viol(dict(sig, component="cold-start-paths-differ"),
                         f"{name}: w_init=None and explicit zero buffers give different results"))
    c_true = certificate(case, out.w, strat)
    if buf is not None:
        # (1) the criterion, recomputed with the solver's own model-fit buffer (no drift involved): tight
        c_buf = certificate(case, out.w, strat, eta_buf=buf)
        judge(c_buf, 1e-9, 1e-12, "recomputed from (X, y, w) and the solver's own Xw buffer")
        # (2) the buffer is X w + b up to floating-point drift
        drift, _ = P.buffer_drift(case, out.w, buf)
        info["max_rel_buffer_drift"] = drift
        if not drift <= DRIFT_MAX:
            viol.append(Viol(dict(sig, component="xw-buffer-mismatch", wild_newton_step=wild_newton_step(case, out)),
                             f"{name}: claims convergence but its model-fit buffer differs from X w + b by {drift:.3e} (relative)", drift=drift))
        # (3) from (X, y, w) alone: drift may not inflate the true violation beyond 2 tol
        if not viol:
            lim = 2 * tol
            exc = c_true["vec"] - lim - 1e-8 * c_true["gscale"]
            if (len(exc) and exc.max() > 0) or c_true["icpt"] > lim + 1e-8 * c_true["icpt_scale"]:
                viol.append(Viol(dict(sig, component="drift-breaks-certificate", wild_newton_step=wild_newton_step(case, out)),
                                 f"{name}: stop_crit={out.stop:.3e} <= tol={tol:g}, but from (X, y, w) alone the violation is "
                                 f"{max(c_true['feat'], c_true['icpt']):.3e} > 2 tol (buffer drift {drift:.2e})"))
    else:
        slack = 1e-7 if (name == "GramCD" and case["solver"].get("use_acc")) else 1e-10
        judge(c_true, 1e-6, slack, "recomputed from (X, y, w) alone")
    nontrivial = nz or (bool(case["solver"].get("fit_intercept")) and name not in ("GramCD", "LBFGS")) or case.get("init") is not None
    cl.append("claims-convergence")
    if nz:
        cl.append("nonzero-solution")
    if not viol:
        info["max_true_excess_over_tol_rel"] = float(max(0., (max(c_true["feat"], c_true["icpt"]) - tol) / tol))
    return result(viol, nontrivial, cl, info)


def wild_newton_step(case, out, nonfinite=False):
    """KF-PN-WILD-STEP root cause, established twice: the implementation takes an astronomically large step or the
    judged output itself is non-finite (`_impl_wild`, a probe ON the code under test; `nonfinite`) AND reference maths confirm a vanishing-curvature point on the way
    (`predicted_wild_step` at the start or at one of the first three outer iterates, or `saturated_iterate`).  The
    second leg keeps a defect that merely produces huge steps from hiding behind the known finding."""
    out_nf = out is not None and getattr(out, "w", None) is not None and not np.all(np.isfinite(np.asarray(out.w, float)))
    if not (nonfinite or out_nf or _impl_wild(case, out)):
        return False
    import json
    from .c03 import start_point
    pts = [np.asarray(start_point(case), float)]
    own = int(case["solver"].get("max_pn_iter", 1))
    for mi in (1, 2, 3):
        for mp in sorted({m for m in (1, 2, 5, 20, 100, own) if m <= max(own, 1)}):
            c = json.loads(json.dumps(case))
            c["solver"]["max_iter"], c["solver"]["max_pn_iter"] = mi, mp
            o = P.run(c)
            if o.exc is None and o.w is not None and np.all(np.isfinite(np.asarray(o.w, float))):
                pts.append(np.asarray(o.w, float))
    if any(predicted_wild_step(case, pt) for pt in pts):
        return True
    return saturated_iterate(case) or no_minimiser(case)


def no_minimiser(case):
    """Reference-side (LP) test that a logistic problem has no minimiser: a direction d exists that no penalty term
    charges (penalised coordinates fixed to 0, sign-constrained ones >= 0, unpenalised ones and the intercept free)
    with y_i (x_i . d + d_b) >= 0 for all i and > 0 for some i.  Along it the objective decreases for ever, the iterates
    drift until every margin saturates, the Hessian weights underflow and NaN appears: same end state as
    KF-PN-WILD-STEP-NAN, reached gradually."""
    try:
        d = case["datafit"]
        if d is None or d["name"] not in ("Logistic", "LogisticGroup"):
            return False
        from scipy.optimize import linprog
        X = np.array(case["X"], float)
        y = np.array(case["y"], float)
        n, p = X.shape
        pen = case["penalty"]
        fi = bool(case["solver"].get("fit_intercept", False))
        lo, hi = np.zeros(p), np.zeros(p)
        nm = pen["name"]
        if nm == "PositiveConstraint":
            hi[:] = 1.
        elif nm == "IndicatorBox":
            return False
        elif "weights" in pen and "groups" not in pen:
            wts = np.array(pen["weights"], float)
            free = wts == 0
            hi[free] = 1.
            lo[free] = 0. if pen.get("positive") else -1.
        elif "groups" in pen:
            for g, wg in zip(pen["groups"], pen["weights"]):
                if wg == 0:
                    hi[g] = 1.
                    lo[g] = 0. if pen.get("positive") else -1.
        elif pen.get("alpha", 1.) == 0:
            lo[:], hi[:] = -1., 1.
        A = y[:, None] * X
        bounds = [(float(a), float(b)) for a, b in zip(lo, hi)]
        if fi:
            A = np.c_[A, y]
            bounds.append((-1., 1.))
        if not any(b[1] > b[0] for b in bounds):
            return False
        res = linprog(-A.sum(0), A_ub=-A, b_ub=np.zeros(n), bounds=bounds, method="highs")
        return bool(res.status == 0 and -res.fun > 1e-9)
    except Exception:  # noqa
        return False


def _impl_wild(case, out):
    """root-cause probe for ProxNewton buffer mismatches: do the first prox-Newton steps from the start point move
    the coefficients by more than 1e3 x (size of start and final points)?  (saturated GLM: Hessian ~ 0; inside
    the step computation the iterates are larger still, and round-off is relative to *them*)"""
    if case["solver"]["name"] not in ("ProxNewton", "GroupProxNewton"):
        return False
    import json
    ref = 1. + (float(np.max(np.abs(case["init"]["w"]))) if case.get("init") else 0.)
    if out is not None:     # the judged output is a converged point: intermediate iterates must not dwarf it either
        wf = np.abs(np.asarray(out.w, float))
        ref += float(np.max(wf)) if np.all(np.isfinite(wf)) else 0.
    own = int(case["solver"].get("max_pn_iter", 1))
    for mi, mp in ((1, 1), (1, 2), (2, 1), (3, 1), (1, own), (2, own), (3, own)):
        c = json.loads(json.dumps(case))
        c["solver"]["max_iter"], c["solver"]["max_pn_iter"] = mi, mp
        o = P.run(c)
        if o.exc is not None or o.w is None:
            continue
        if np.max(np.abs(o.w)) > 1e3 * ref or not np.all(np.isfinite(o.w)):
            return True
    return saturated_iterate(case)


def stagnation(case, out, tol, last=None):
    """A coordinate-descent run that did NOT converge, judged without any budget argument: one pass over a coordinate
    whose optimality violation is v gains at least v^2 / (2 L_j) of objective (exact coordinate minimisation of an
    L_j-smooth term plus a separable penalty).  If the returned history (true objective per outer iteration, C17) is flat
    over its last iterations -- a hundred times less than ONE pass must gain -- while the reference-maths violation of the
    returned point is thousands of tolerances, the iteration has a fixed point that is not a solution.
    -> None, or a message.  Scalar AndersonCD / GramCD compositions only (convex or not: CD is a descent method)."""
    try:
        s = case["solver"]
        if s["name"] not in ("AndersonCD", "GramCD") or out.w is None or out.obj is None:
            return None
        if "groups" in case["penalty"] or np.ndim(case["y"]) > 1 and (case["datafit"] or {}).get("name") != "Cox":
            return None
        w = np.asarray(out.w, float)
        obj = np.asarray(out.obj, float)
        last = last or (1000 if s["name"] == "GramCD" else 10)
        if len(obj) < 2 * last or not (np.all(np.isfinite(w)) and np.all(np.isfinite(obj[-last - 1:]))):
            return None
        c = certificate(case, w, "subdiff")
        v = float(max(c["feat"], c["icpt"]))
        L = np.asarray(P.coord_lipschitz(case), float)
        vec = np.asarray(c["vec"], float)
        if vec.shape != L.shape:
            return None
        with np.errstate(all="ignore"):
            gains = np.where(L > 0, vec ** 2 / (2 * np.where(L > 0, L, 1.)), 0.)
        gain = float(np.max(gains)) if gains.size else 0.
        j = int(np.argmax(gains)) if gains.size else -1
        drop = float(obj[-last - 1] - obj[-1])
        # the guaranteed gain must be resolvable in floating point next to the objective's magnitude
        resolvable = gain > 1e-9 * max(abs(float(obj[-1])), abs(float(obj[-last - 1])), 1e-300)
        if math.isfinite(v) and j >= 0 and vec[j] > 1e3 * tol and resolvable and drop < 1e-2 * gain:
            return (f"stops moving at a point whose optimality violation on coordinate {j} is {vec[j]:.3e} (tol {tol:g}): objective change over "
                    f"the last {last} outer iterations {drop:.1e}, while one pass over that coordinate must gain >= {gain:.1e}")
        return None
    except Exception:  # noqa -- no reference model: no judgement
        return None


def predicted_wild_step(case, w_from):
    """Implementation-independent form of the root cause: at `w_from` (reference gradient g and reference Hessian
    weights h of the loss) some pure Newton coordinate step |g_j| / sum_i h_i X_ij^2 -- or the intercept step
    |sum_i r_i| / sum_i h_i -- exceeds 1e3 x (1 + max |w_from|), or the curvature is numerically zero while the gradient
    is not.  A defect that merely overshoots from a well-conditioned point does not satisfy this."""
    try:
        loss = P.ref_loss(case)
        X = np.array(case["X"], float)
        y = np.array(case["y"], float)
        w, b, fi = P.split(case, np.asarray(w_from, float))
        with np.errstate(all="ignore"):
            eta = X @ w + b
            r = np.asarray(loss.grad(y, eta), float)
            if isinstance(loss, R.Cox):
                h = r + y[:, 1] / len(y)        # documented diagonal bound used by the solver
            else:
                h = np.asarray(loss.hess(y, eta), float)
            if not (np.all(np.isfinite(r)) and np.all(np.isfinite(h))):
                return True
            g = X.T @ r
            c = (h[:, None] * X ** 2).sum(0)
            ref = 1e3 * (1. + (float(np.max(np.abs(w_from))) if np.size(w_from) else 0.))
            cols = np.abs(X).sum(0) > 0
            steps = np.where(c > 0, np.abs(g) / np.where(c > 0, c, 1.), np.where((np.abs(g) > 0) & cols, np.inf, 0.))
            if np.any(steps > ref):
                return True
            if fi:
                cb, gb = float(h.sum()), abs(float(r.sum()))
                if (cb > 0 and gb / cb > ref) or (cb <= 0 and gb > 0):
                    return True
        return False
    except Exception:  # noqa -- no reference model for this composition: the root cause cannot be confirmed
        return False


def saturated_iterate(case):
    """same root cause reached gradually (unbounded problem: separable data with an unpenalised / sign-constrained
    direction): the iterates drift until every sample is saturated, the Hessian weights underflow (~1e-300) and the
    next prox-Newton step is 1/0-sized.  Probe: the last finite outer iterate before the first non-finite one has
    Hessian weights that are numerically zero."""
    import json
    full = int(case["solver"].get("max_iter", 0))
    prev = None
    for k in range(1, min(full, 60) + 1):
        c = json.loads(json.dumps(case))
        c["solver"]["max_iter"] = k
        o = P.run(c)
        if o.exc is not None or o.w is None:
            return False
        if not np.all(np.isfinite(np.asarray(o.w, float))):
            break
        prev = np.asarray(o.w, float)
    else:
        return False
    if prev is None:
        return False
    try:
        loss = P.ref_loss(case)
        X = np.array(case["X"], float)
        y = np.array(case["y"], float)
        w, b, _ = P.split(case, prev)
        with np.errstate(all="ignore"):
            h = np.asarray(loss.hess(y, X @ w + b), float)
        return bool(np.all(np.isfinite(h)) and np.max(np.abs(h)) < 1e-100)
    except Exception:  # noqa -- no reference Hessian for this loss: not this root cause
        return False


def multitask_fixpoint(case, W_full, c):
    """fix-point residual ||W_j - prox(W_j - G_j/L_j)|| with the documented L_j = ||X_j||^2/n"""
    from ..compose import compiled, make_penalty
    X = np.array(case["X"], float)
    n = X.shape[0]
    L = (X ** 2).sum(0) / n
    W_full = np.asarray(W_full, float)
    W = W_full[:-1] if case["solver"]["fit_intercept"] else W_full
    pen = compiled(make_penalty(case["penalty"])[0])
    v = np.zeros(W.shape[0])
    for j in range(W.shape[0]):
        if L[j] == 0:
            continue
        u = np.asarray(pen.prox_1feat(W[j] - c["grad"][j] / L[j], 1. / L[j], j), float)
        v[j] = np.linalg.norm(W[j] - u)
    c = dict(c)
    c["vec"] = v
    c["feat"] = float(v.max()) if len(v) else 0.
    c["gscale"] = np.where(L > 0, c["gscale"] / np.where(L > 0, L, 1.), 0.) + 1e-6 * np.linalg.norm(W, axis=1)
    return c
