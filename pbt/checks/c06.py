"""C06 -- datafits: value == documented loss; every derivative accessor == derivative; dense == sparse."""
import math

import numpy as np
from hypothesis import strategies as st

from .. import gen, refmath as R
from ..common import Viol, result, bootstrap
from ..compose import make_datafit, compiled, to_container

PROPERTY = "C06"
RULE = ("one case = (datafit + hyper-parameters, X incl. empty CSC columns / zero / duplicated columns, target of "
        "the family (Cox: times drawn from a pool of <= n/2 values so ties and censoring are forced), point w). "
        "Oracles: value == refmath loss (documented formula, rel 1e-10); every accessor (gradient_scalar, gradient, "
        "raw_grad, full_grad_sparse, gradient_sparse, gradient_g, gradient_j, intercept_update_step, *_sparse twins) "
        "== X^T dloss/deta recomputed independently (tolerance 1e-9 x the natural cancellation scale); sparse == dense. "
        "Non-trivial: w != 0 (and for Cox a tie group of size >= 2 with an observed event; for CSC cases at least one "
        "empty and one non-empty column).")
ASSUMPTIONS = ["linear predictors are kept in a range where exp() does not overflow (|eta| <= 6 for Poisson/Gamma/Cox, <= 30 logistic)",
               "the intercept step is compared with the derivative up to a positive point-independent factor only when that factor "
               "is listed as a known finding; otherwise equality is required"]

FAMILIES = ["Quadratic", "WeightedQuadratic", "Logistic", "Huber", "Poisson", "Gamma", "Cox-breslow", "Cox-efron",
            "QuadraticSVC", "QuadraticGroup", "LogisticGroup", "QuadraticMultiTask", "SqrtQuadratic", "Pinball"]


def shards(tier):
    n = 300 if tier == "quick" else 5000
    return [dict(id=f"{f}", fam=f, n=n, cost=n * (3 if f.startswith("Cox") else 1)) for f in FAMILIES]


@st.composite
def case_strategy(draw, fam):
    m = draw(gen.matrix(n_min=2, n_max=14, p_min=1, p_max=8))
    n, p = m["n"], m["p"]
    X = np.array(m["X"])
    if draw(st.integers(0, 3)) == 0 and p >= 2:   # force an empty last CSC column
        X[:, -1] = 0.
        m["flags"].append("empty-last-col")
    w = [draw(gen.real(-2, 0, zero=.3)) for _ in range(p)]
    if draw(st.integers(0, 9)) == 0:
        w = [0.] * p
    case = dict(fam=fam, X=X.tolist(), w=w, flags=m["flags"])
    spec = dict(name=fam)
    if fam == "WeightedQuadratic":
        spec["sample_weights"] = [draw(st.integers(1, 40)) / 10. for _ in range(n)]
        case["y"] = draw(gen.real_target(n))
    elif fam in ("Quadratic", "SqrtQuadratic", "QuadraticGroup"):
        case["y"] = draw(gen.real_target(n))
    elif fam == "Huber":
        spec["delta"] = draw(gen.pos_float(-2, 1))
        case["y"] = draw(gen.real_target(n))
        case["at_kink"] = draw(st.booleans())
    elif fam in ("Logistic", "LogisticGroup", "QuadraticSVC"):
        case["y"] = draw(gen.sign_target(n))
    elif fam == "Poisson":
        case["y"] = draw(gen.count_target(n))
    elif fam == "Gamma":
        case["y"] = draw(gen.positive_target(n))
    elif fam.startswith("Cox"):
        spec = dict(name="Cox", use_efron=fam.endswith("efron"))
        case["y"] = draw(gen.survival_target(n, ties=draw(st.integers(0, 4)) > 0))
    elif fam == "QuadraticMultiTask":
        T = draw(st.integers(1, 3))
        case["y"] = [[draw(gen.real(-1, 0)) for _ in range(T)] for _ in range(n)]
        case["w"] = [[draw(gen.real(-2, 0, zero=.3)) for _ in range(T)] for _ in range(p)]
    elif fam == "Pinball":
        spec["quantile"] = draw(st.sampled_from([.5, .1, .9, .3, 0., 1.]))
        case["y"] = draw(gen.real_target(n))
    if fam in ("QuadraticGroup", "LogisticGroup"):
        spec["groups"] = draw(gen.partition(p, max_groups=4))
        spec["n_features"] = p
    case["datafit"] = spec
    return case


def strategy(shard):
    return case_strategy(shard["fam"])


def relerr(a, b, scale):
    return float(np.max(np.abs(np.asarray(a, float) - np.asarray(b, float)) / scale))


def check_case(case):
    bootstrap()
    fam = case["fam"]
    spec = case["datafit"]
    X = np.array(case["X"], float)
    n, p = X.shape
    y = np.array(case["y"], float)
    w = np.array(case["w"], float)
    if fam == "QuadraticSVC":
        # the datafit's "X" is M = (y X)^T : (n_features, n_samples); its variable has one entry per column of M
        M = (y[:, None] * X).T
        Xd = np.asfortranarray(M)
        w = np.resize(np.abs(w) if len(w) else np.zeros(1), n).astype(float)   # dual variable, one per sample
    else:
        Xd = np.asfortranarray(X)
    eta = Xd @ w
    # keep eta where exp() is benign
    lim = {"Poisson": 6., "Gamma": 6., "Cox": 6., "Logistic": 30., "LogisticGroup": 30.}.get(spec["name"])
    if lim is not None and np.abs(eta).max() > lim:
        w = w * (lim / np.abs(eta).max())
        eta = Xd @ w
    if fam == "Huber" and case.get("at_kink") and n >= 1:
        # move y_0 so that residual 0 sits exactly on the Huber kink
        y = y.copy()
        y[0] = eta[0] + spec["delta"]
    if fam == "SqrtQuadratic" and np.linalg.norm(y - eta) <= 2e-2 * np.linalg.norm(y):
        return result([], False, [fam, "small-residual(out of domain)"])
    Xs = to_container(Xd, "csc")
    sk_df, loss = make_datafit(spec)
    dfd, dfs = compiled(sk_df), compiled(sk_df)
    viol = []
    sig0 = dict(datafit=spec["name"] + ("-efron" if spec.get("use_efron") else ""))
    classes = [fam] + [f for f in case["flags"] if f in ("zero-col", "empty-last-col", "dup-col")]

    def bad(kind, accessor, msg, **extra):
        viol.append(Viol(dict(sig0, kind=kind, accessor=accessor, **extra), f"{fam}.{accessor}: {msg}"))

    # ---- initialise (dense and sparse instances)
    sparse_ok = True
    try:
        if hasattr(dfd, "initialize"):
            dfd.initialize(Xd, y)
    except Exception as e:  # noqa
        bad("exception", "initialize", repr(e)[:200])
        return result(viol, True, classes)
    try:
        if hasattr(dfs, "initialize_sparse"):
            dfs.initialize_sparse(Xs.data, Xs.indptr, Xs.indices, y)
    except Exception as e:  # noqa
        sparse_ok = False
        bad("exception", "initialize_sparse", repr(e)[:300].replace("\n", " "), exc=type(e).__name__)

    # ---- reference quantities
    if fam == "QuadraticSVC":
        ref_val = R.SVCDual().value_w(eta, w)
        raw = eta                      # d/dtheta of 1/2||theta||^2
        full = Xd.T @ eta - 1.         # gradient w.r.t. w
        cancel = np.abs(Xd).T @ np.abs(eta) + 1.
    elif fam == "QuadraticMultiTask":
        ref_val = loss.value(y, eta)
        raw = loss.grad(y, eta)
        full = Xd.T @ raw
        cancel = (np.abs(Xd).T @ (np.abs(eta) + np.abs(y))) / n + 1e-300
    elif fam == "Pinball":
        ref_val = loss.value(y, eta)
        raw = full = cancel = None
    else:
        ref_val = loss.value(y, eta)
        raw = loss.grad(y, eta)
        full = Xd.T @ raw
        nrm = spec.get("sample_weights")
        sw = np.array(nrm) / np.sum(nrm) if nrm is not None else np.ones(n) / n
        # natural cancellation scale of each component of dloss/deta (sizes of the terms that are subtracted)
        nm = spec["name"]
        if nm in ("Quadratic", "WeightedQuadratic", "QuadraticGroup", "Huber"):
            raw_scale = sw * (np.abs(eta) + np.abs(y))
        elif nm == "Poisson":
            raw_scale = (np.exp(eta) + np.abs(y)) / n
        elif nm == "Gamma":
            raw_scale = (1 + y * np.exp(-eta)) / n
        elif nm == "Cox":
            raw_scale = np.full(n, (1. + y[:, 1].sum()) / n)
        elif nm == "SqrtQuadratic":
            raw_scale = np.ones(n)
        else:
            raw_scale = np.full(n, 1. / n)
        raw_scale = raw_scale + 1e-300
        cancel = np.abs(Xd).T @ raw_scale + 1e-300
    TOL = 1e-9

    # ---- value
    for tag, df in (("dense", dfd), ("sparse", dfs)):
        if tag == "sparse" and not sparse_ok:
            continue
        try:
            v = float(df.value(y, w, eta))
        except Exception as e:  # noqa
            bad("exception", "value", repr(e)[:200])
            continue
        vs = abs(ref_val) + (np.abs(eta).sum() + np.abs(y).sum() + 1.) * 1e-6
        if not math.isfinite(v) or abs(v - ref_val) > 1e-10 * vs + 1e-13:
            cst = None
            if math.isfinite(v) and fam == "Gamma":
                cst = "constant-offset"
            bad("value-mismatch", "value", f"value={v!r}, documented loss={ref_val!r} (n={n})", variant=tag, nature=cst)

    if spec["name"] in ("Logistic", "LogisticGroup") and np.abs(eta).max() > 0:
        # the logistic loss and its derivative are finite at every finite predictor (log(1+exp(-z)) ~ -z): judged on
        # saturated predictors too -- warm starts and badly scaled columns put solvers there
        for big in (800., 5000.):
            eb = eta * (big / np.abs(eta).max())
            try:
                vb = float(dfd.value(y, w, eb))
                gb = np.asarray(dfd.raw_grad(y, eb), float)
            except Exception as e:  # noqa
                bad("exception", "value", repr(e)[:200], saturated=True)
                break
            rv, rg = loss.value(y, eb), loss.grad(y, eb)
            if not math.isfinite(vb) or abs(vb - rv) > 1e-10 * (abs(rv) + 1.):
                bad("value-mismatch", "value", f"saturated predictor (max |eta| = {big:g}): value={vb!r}, documented loss={rv!r}", saturated=True)
                break
            if not np.all(np.isfinite(gb)) or np.max(np.abs(gb - rg)) > 1e-10 / n:
                bad("gradient-mismatch", "raw_grad", f"saturated predictor (max |eta| = {big:g}): raw_grad={gb.tolist()[:4]}, dloss/deta={np.asarray(rg).tolist()[:4]}", saturated=True)
                break
        classes.append("saturated-predictor")

    def cmp_vec(name, got, want, scale, **extra):
        got = np.asarray(got, float)
        want = np.asarray(want, float)
        if got.shape != want.shape:
            bad("shape", name, f"shape {got.shape} vs {want.shape}", **extra)
            return
        if got.size == 0:
            return
        err = np.abs(got - want) / scale
        if not np.all(np.isfinite(got)) or err.max() > TOL:
            k = int(np.argmax(np.where(np.isfinite(err), err, np.inf)))
            bad("derivative-mismatch", name, f"component {k}: got {got.ravel()[k]!r}, derivative of the documented loss {want.ravel()[k]!r}", **extra)

    def call(name, f):
        try:
            return f()
        except Exception as e:  # noqa
            bad("exception", name, repr(e)[:300].replace("\n", " "), exc=type(e).__name__)
            return None

    sp = (Xs.data, Xs.indptr, Xs.indices)
    if fam == "Pinball":
        pass
    elif fam == "QuadraticMultiTask":
        for j in range(p):
            g = call("gradient_j", lambda: dfd.gradient_j(Xd, y, w, eta, j))
            if g is not None:
                cmp_vec("gradient_j", g, full[j], cancel[j])
            if sparse_ok:
                g = call("gradient_j_sparse", lambda: dfs.gradient_j_sparse(*sp, y, eta, j))
                if g is not None:
                    cmp_vec("gradient_j_sparse", g, full[j], cancel[j])
        if sparse_ok:
            g = call("full_grad_sparse", lambda: dfs.full_grad_sparse(*sp, y, eta))
            if g is not None:
                cmp_vec("full_grad_sparse", g, full, cancel)
        st_ = call("intercept_update_step", lambda: dfd.intercept_update_step(y, eta))
        if st_ is not None:
            cmp_vec("intercept_update_step", st_, raw.sum(axis=0), np.abs(raw).sum(axis=0) + (np.abs(eta) + np.abs(y)).sum(axis=0) / n + 1e-300)
    else:
        if hasattr(dfd, "raw_grad") and fam != "QuadraticSVC":
            g = call("raw_grad", lambda: dfd.raw_grad(y, eta))
            if g is not None:
                cmp_vec("raw_grad", g, raw, raw_scale)
        if hasattr(dfd, "gradient_scalar"):
            g = call("gradient_scalar", lambda: np.array([dfd.gradient_scalar(Xd, y, w, eta, j) for j in range(Xd.shape[1])]))
            if g is not None:
                cmp_vec("gradient_scalar", g, full, cancel)
        if hasattr(dfd, "gradient"):
            g = call("gradient", lambda: dfd.gradient(Xd, y, eta))
            if g is not None:
                cmp_vec("gradient", g, full, cancel)
        if sparse_ok and hasattr(dfs, "gradient_scalar_sparse"):
            if spec["name"] == "QuadraticGroup":
                f = lambda: np.array([dfs.gradient_scalar_sparse(*sp, y, w, eta, j) for j in range(p)])  # noqa
            else:
                f = lambda: np.array([dfs.gradient_scalar_sparse(*sp, y, eta, j) for j in range(Xd.shape[1])])  # noqa
            g = call("gradient_scalar_sparse", f)
            if g is not None:
                cmp_vec("gradient_scalar_sparse", g, full, cancel)
        if sparse_ok and hasattr(dfs, "full_grad_sparse"):
            g = call("full_grad_sparse", lambda: dfs.full_grad_sparse(*sp, y, eta))
            if g is not None:
                cmp_vec("full_grad_sparse", g, full, cancel)
        if sparse_ok and hasattr(dfs, "gradient_sparse"):
            g = call("gradient_sparse", lambda: dfs.gradient_sparse(*sp, y, eta))
            if g is not None:
                cmp_vec("gradient_sparse", g, full, cancel)
        if "groups" in spec:
            for gi, idx in enumerate(spec["groups"]):
                g = call("gradient_g", lambda: dfd.gradient_g(Xd, y, w, eta, gi))
                if g is not None:
                    cmp_vec("gradient_g", g, full[idx], cancel[idx])
                if sparse_ok and hasattr(dfs, "gradient_g_sparse"):
                    g = call("gradient_g_sparse", lambda: dfs.gradient_g_sparse(*sp, y, w, eta, gi))
                    if g is not None:
                        cmp_vec("gradient_g_sparse", g, full[idx], cancel[idx])
        if hasattr(dfd, "intercept_update_step"):
            s_ = call("intercept_update_step", lambda: float(dfd.intercept_update_step(y, eta)))
            if s_ is not None:
                want = float(raw.sum())
                scale = float(raw_scale.sum())
                if not math.isfinite(s_) or abs(s_ - want) > TOL * scale:
                    ratio = None
                    if want != 0 and math.isfinite(s_):
                        q = s_ / want
                        ratio = "1/4" if abs(q - .25) < 1e-6 else ("negative" if q < 0 else "other")
                    bad("derivative-mismatch", "intercept_update_step", f"step={s_!r}, sum_i dloss/deta_i={want!r}", ratio=ratio)

    nontrivial = bool(np.any(w)) if fam != "QuadraticMultiTask" else bool(np.any(w))
    if fam.startswith("Cox"):
        tm, s = y[:, 0], y[:, 1]
        tie = any(((tm == t) & (s != 0)).sum() >= 1 and (tm == t).sum() >= 2 for t in np.unique(tm))
        classes.append("ties" if tie else "no-ties")
        nontrivial = nontrivial and tie
    nnz_cols = np.diff(Xs.indptr)
    if (nnz_cols == 0).any() and (nnz_cols > 0).any():
        classes.append("mixed-empty-cols")
    if fam == "Huber" and case.get("at_kink"):
        classes.append("huber-kink")
    return result(viol, nontrivial, classes)
