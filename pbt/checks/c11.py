"""C11 -- each ready-made estimator minimises exactly its documented objective."""
import math
import warnings

import numpy as np
from hypothesis import strategies as st

from .. import gen, problems as P, refmath as R
from ..common import Viol, result, bootstrap
from . import c01

PROPERTY = "C11"
RULE = ("one case = estimator + every documented constructor argument drawn (alpha, l1_ratio incl. 0 and 1, C, gamma, "
        "weights incl. zeros, groups in the three documented formats, positive, fit_intercept, method, ws_strategy) + "
        "generated data (Cox: forced ties and censoring), tight tolerance. Oracle: the objective is transcribed FROM "
        "THE ESTIMATOR'S DOCSTRING into refmath; after fit with stop_crit_ <= tol the first-order optimality "
        "violation of (coef_, intercept_) for THAT objective is <= tol (C01 certificate); fit_intercept=False => "
        "intercept_ == 0; positive=True => coef_ >= 0; LinearSVC: dual_coef_ in [0, C], dual stationarity and coef_ "
        "== sum_i y_i dual_i x_i; SqrtLasso: stationarity of ||y - Xw||_2 + alpha ||w||_1. Non-trivial: a "
        "non-default argument (l1_ratio, positive, weights, groups format, method, gamma, fit_intercept=False) is in "
        "play and the fitted coefficients are not all zero.")
ASSUMPTIONS = ["estimators are fitted through the harness's sklearn-1.9 shim",
               "non-converged fits (stop_crit_ > tol after the budget) are inconclusive",
               "SqrtLasso is judged only above the datafit's documented small-residual guard"]

ESTIMATORS = ["Lasso", "WeightedLasso", "ElasticNet", "MCPRegression", "GroupLasso", "MultiTaskLasso", "SparseLogisticRegression",
              "LinearSVC", "CoxEstimator", "GLE", "SqrtLasso"]


def shards(tier):
    n = 80 if tier == "quick" else 600
    return [dict(id=e, est=e, n=n, cost=n * (3 if e in ("GroupLasso", "MultiTaskLasso", "CoxEstimator", "GLE") else 1)) for e in ESTIMATORS]


@st.composite
def case_strategy(draw, est):
    m = draw(gen.matrix(n_min=4, n_max=16, p_min=2, p_max=8, degenerate=True, scales=False))
    X = np.array(m["X"])
    n, p = X.shape
    case = dict(est=est, X=m["X"], flags=m["flags"], frac=draw(gen.frac_log(-2.5, -.1, 24)), storage=draw(st.sampled_from(["dense", "csc"])),
                fit_intercept=draw(st.booleans()), tol=draw(st.sampled_from([1e-6, 1e-8])))
    if est in ("Lasso", "WeightedLasso", "ElasticNet", "MCPRegression", "GroupLasso"):
        case["positive"] = draw(st.booleans())
        case["ws_strategy"] = draw(st.sampled_from(["subdiff", "fixpoint"]))
        case["y"] = draw(gen.planted_target(X))
    if est == "SqrtLasso":
        case["y"] = [float(v + (-1) ** i * (i % 3 + 1)) for i, v in enumerate(draw(gen.planted_target(X)))]
        case["storage"] = "dense"
    if est in ("WeightedLasso", "MCPRegression"):
        case["weights"] = draw(st.one_of(st.none(), gen.weights(p))) if est == "MCPRegression" else draw(gen.weights(p))
    if est == "ElasticNet":
        case["l1_ratio"] = draw(st.sampled_from([1., .5, .9, .1, .01]))
    if est == "MCPRegression":
        L = (X ** 2).sum(0) / n
        wmax = max(case["weights"]) if case.get("weights") else 1.
        case["gamma"] = float(draw(st.sampled_from([1.2, 3., 30.])) * max(wmax, 1.) / L[L > 0].min() + 1) if (L > 0).any() else 3.
    if est == "GroupLasso":
        fmt = draw(st.sampled_from(["int", "sizes", "lists"]))
        if fmt == "int":
            divs = [d for d in range(1, p + 1) if p % d == 0]
            g = draw(st.sampled_from(divs))
            case["groups_arg"] = g
            case["groups"] = [list(range(i, i + g)) for i in range(0, p, g)]
        elif fmt == "sizes":
            parts = draw(gen.partition(p, contiguous=True))
            case["groups_arg"] = [len(q) for q in parts]
            case["groups"] = parts
        else:
            parts = draw(gen.partition(p))
            case["groups_arg"] = parts
            case["groups"] = parts
        case["group_format"] = fmt
        case["weights"] = draw(st.one_of(st.none(), gen.weights(len(case["groups"]), zero_prob=0.)))
    if est == "MultiTaskLasso":
        T = draw(st.integers(1, 3))
        case["y"] = [[draw(gen.real(-1, 0)) + i % 2 for _ in range(T)] for i in range(n)]
    if est in ("SparseLogisticRegression", "LinearSVC"):
        case["y"] = draw(gen.planted_sign_target(X))
        if est == "LinearSVC":
            case["C"] = draw(st.sampled_from([.01, .1, 1., 10.]))
            case["fit_intercept"] = False
    if est == "CoxEstimator":
        case["y"] = draw(gen.survival_target(n, ties=draw(st.integers(0, 3)) > 0))
        case["l1_ratio"] = draw(st.sampled_from([0., 1., .7, .3]))
        case["method"] = draw(st.sampled_from(["efron", "breslow"]))
        case["fit_intercept"] = False
    if est == "GLE":
        case["gle"] = draw(st.sampled_from(["Quadratic-L1-AndersonCD", "Quadratic-WeightedL1-AndersonCD", "Huber-L1_plus_L2-AndersonCD",
                                            "Logistic-L1-ProxNewton", "Quadratic-MCPenalty-AndersonCD", "Quadratic-L1-FISTA", "Poisson-L1-ProxNewton"]))
        fam = case["gle"].split("-")[0]
        if fam == "Logistic":
            case["y"] = draw(gen.planted_sign_target(X))
        elif fam == "Poisson":
            yy = draw(gen.count_target(n))
            yy[0] += 1.
            case["y"] = yy
        else:
            case["y"] = draw(gen.planted_target(X))
        case["weights"] = draw(gen.weights(p))
        case["delta"] = draw(gen.pos_float(-1, 1))
    return case


def strategy(shard):
    return case_strategy(shard["est"])


def check_case(case):
    bootstrap()
    import skglm
    from scipy import sparse
    est = case["est"]
    X = np.array(case["X"], float)
    y = np.array(case["y"], float)
    n, p = X.shape
    fi, tol = case["fit_intercept"], case["tol"]
    Xin = sparse.csc_matrix(X) if case["storage"] == "csc" else X
    sig = dict(estimator=est, fit_intercept=fi, storage=case["storage"])
    classes = [est]
    # ---- alpha relative to the problem
    if est == "MultiTaskLasso":
        amax = np.linalg.norm(X.T @ (y - y.mean(0) * fi), axis=1).max() / n
    elif est in ("SparseLogisticRegression",) or (est == "GLE" and case["gle"].startswith("Logistic")):
        amax = np.abs(X.T @ y).max() / (2 * n)
    elif est == "CoxEstimator":
        g0 = X.T @ R.Cox(True).grad(y, np.zeros(n))
        amax = np.abs(g0).max()
    elif est == "SqrtLasso":
        amax = np.abs(X.T @ y).max() / (np.linalg.norm(y) + 1e-300)
    elif est == "LinearSVC":
        amax = 1.
    elif est == "GLE" and case["gle"].startswith("Poisson"):
        amax = np.abs(X.T @ (1 - y)).max() / n
    else:
        amax = np.abs(X.T @ (y - y.mean() * fi)).max() / n
    alpha = float(amax * case["frac"]) or 1.
    if not math.isfinite(alpha) or alpha <= 0:
        alpha = 1.
    kw = dict(alpha=alpha, tol=tol, fit_intercept=fi, max_iter=300)
    if est in ("Lasso", "WeightedLasso", "ElasticNet", "MCPRegression", "GroupLasso", "MultiTaskLasso"):
        kw["max_epochs"] = 2000     # bounds the cost of ill-conditioned cases; a non-converged fit is inconclusive
    pc = None
    nondefault = []
    if est == "Lasso":
        model = skglm.Lasso(positive=case["positive"], ws_strategy=case["ws_strategy"], **kw)
        pc = ("Quadratic", dict(name="L1", alpha=alpha, positive=case["positive"]), "AndersonCD")
        nondefault = ["positive"] * case["positive"]
    elif est == "WeightedLasso":
        model = skglm.WeightedLasso(weights=np.array(case["weights"]), positive=case["positive"], ws_strategy=case["ws_strategy"], **kw)
        pc = ("Quadratic", dict(name="WeightedL1", alpha=alpha, weights=case["weights"], positive=case["positive"]), "AndersonCD")
        nondefault = ["weights"]
    elif est == "ElasticNet":
        model = skglm.ElasticNet(l1_ratio=case["l1_ratio"], positive=case["positive"], ws_strategy=case["ws_strategy"], **kw)
        pc = ("Quadratic", dict(name="L1_plus_L2", alpha=alpha, l1_ratio=case["l1_ratio"], positive=case["positive"]), "AndersonCD")
        nondefault = ["l1_ratio"] * (case["l1_ratio"] != .5) + ["positive"] * case["positive"]
    elif est == "MCPRegression":
        w = None if case["weights"] is None else np.array(case["weights"])
        model = skglm.MCPRegression(gamma=case["gamma"], weights=w, positive=case["positive"], ws_strategy=case["ws_strategy"], **kw)
        if w is None:
            pc = ("Quadratic", dict(name="MCPenalty", alpha=alpha, gamma=case["gamma"], positive=case["positive"]), "AndersonCD")
        else:
            pc = ("Quadratic", dict(name="WeightedMCPenalty", alpha=alpha, gamma=case["gamma"], weights=case["weights"], positive=case["positive"]), "AndersonCD")
        nondefault = ["gamma"] + ["weights"] * (w is not None) + ["positive"] * case["positive"]
    elif est == "GroupLasso":
        w = None if case["weights"] is None else np.array(case["weights"])
        model = skglm.GroupLasso(groups=case["groups_arg"], weights=w, positive=case["positive"], ws_strategy=case["ws_strategy"], **kw)
        gw = [1.] * len(case["groups"]) if w is None else case["weights"]
        pc = ("QuadraticGroup", dict(name="WeightedGroupL2", alpha=alpha, weights=gw, groups=case["groups"], n_features=p, positive=case["positive"]), "GroupBCD")
        nondefault = ["groups:" + case["group_format"]] + ["weights"] * (w is not None) + ["positive"] * case["positive"]
    elif est == "MultiTaskLasso":
        model = skglm.MultiTaskLasso(**kw)
        pc = ("QuadraticMultiTask", dict(name="L2_1", alpha=alpha), "MultiTaskBCD")
    elif est == "SparseLogisticRegression":
        model = skglm.SparseLogisticRegression(**kw)
        pc = ("Logistic", dict(name="L1", alpha=alpha), "ProxNewton")
    elif est == "LinearSVC":
        model = skglm.LinearSVC(C=case["C"], tol=tol, max_iter=500, fit_intercept=False)
        nondefault = ["C"] * (case["C"] != 1.)
    elif est == "CoxEstimator":
        model = skglm.CoxEstimator(alpha=alpha, l1_ratio=case["l1_ratio"], method=case["method"], tol=tol, max_iter=300)
        lr = case["l1_ratio"]
        pen = dict(name="L2", alpha=alpha) if lr == 0 else (dict(name="L1", alpha=alpha) if lr == 1 else dict(name="L1_plus_L2", alpha=alpha, l1_ratio=lr))
        pc = ("Cox:" + case["method"], pen, "LBFGS" if lr == 0 else "ProxNewton")
        nondefault = ["method"] * (case["method"] != "efron") + ["l1_ratio"] * (lr != .7)
    elif est == "SqrtLasso":
        from skglm.experimental import SqrtLasso
        model = SqrtLasso(alpha=alpha, tol=tol, max_iter=200)
    else:
        from skglm import datafits as D, penalties as Pn, solvers as S
        fam, pen, sv = case["gle"].split("-")
        dfo = {"Quadratic": D.Quadratic(), "Huber": D.Huber(case["delta"]), "Logistic": D.Logistic(), "Poisson": D.Poisson()}[fam]
        L = (X ** 2).sum(0) / n
        gam = float(3. / L[L > 0].min() + 1) if (L > 0).any() else 3.
        peo = {"L1": lambda: Pn.L1(alpha), "WeightedL1": lambda: Pn.WeightedL1(alpha, np.array(case["weights"])),
               "L1_plus_L2": lambda: Pn.L1_plus_L2(alpha, .5), "MCPenalty": lambda: Pn.MCPenalty(alpha, gam)}[pen]()
        if sv == "FISTA":
            svo = S.FISTA(max_iter=30000, tol=tol)
            fi = case["fit_intercept"] = False
        elif sv == "ProxNewton":
            svo = S.ProxNewton(tol=tol, max_iter=300, fit_intercept=fi)
        else:
            svo = S.AndersonCD(tol=tol, max_iter=300, fit_intercept=fi)
        model = skglm.GeneralizedLinearEstimator(dfo, peo, svo)
        ps = dict(name=pen, alpha=alpha)
        if pen == "WeightedL1":
            ps["weights"] = case["weights"]
        if pen == "L1_plus_L2":
            ps["l1_ratio"] = .5
        if pen == "MCPenalty":
            ps["gamma"] = gam
        pc = (fam + (":" + str(case["delta"]) if fam == "Huber" else ""), ps, sv)
        nondefault = [case["gle"]]
    try:
        with warnings.catch_warnings():
            warnings.simplefilter("ignore")
            model.fit(Xin, y)
    except Exception as e:  # noqa
        smallres = est == "SqrtLasso"
        if smallres and "SmallResidual" in str(e):
            return result([], False, classes + ["small-residual-guard(documented)"])
        return result([Viol(dict(sig, kind="exception", exc=type(e).__name__), f"{est}.fit raised {type(e).__name__}: {str(e)[:200]} (args: {nondefault})")], True, classes)
    coef = np.asarray(model.coef_, float)
    viol = []
    if not fi and np.any(np.asarray(model.intercept_, float) != 0):
        viol.append(Viol(dict(sig, kind="intercept-nonzero-without-fit_intercept"), f"{est}(fit_intercept=False).intercept_ = {model.intercept_!r}"))
    if case.get("positive") and np.any(coef < 0):
        viol.append(Viol(dict(sig, kind="positive-ignored"), f"{est}(positive=True).coef_ has negative entries (min {coef.min()!r})"))
    stop = float(getattr(model, "stop_crit_", getattr(model, "stopping_crit", np.nan)))
    nz = bool(np.any(coef != 0))
    if est == "SqrtLasso":
        r = y - X @ coef.ravel()
        nr = np.linalg.norm(r)
        if nr <= 1e-2 * np.linalg.norm(y):
            return result(viol, False, classes + ["small-residual-guard(documented)"])
        g = -X.T @ r / nr
        pen = R.L1(alpha)
        v = max(pen.sdist(coef.ravel()[j], g[j], j) for j in range(p))
        if v > 10 * tol + 1e-9:
            viol.append(Viol(dict(sig, kind="not-stationary"), f"SqrtLasso(alpha={alpha!r}): violation of ||y - Xw||_2 + alpha ||w||_1 stationarity is {v:.3e} (tol {tol:g})"))
        return result(viol, nz, classes)
    if est == "LinearSVC":
        d = np.asarray(model.dual_coef_, float).ravel()
        C = case["C"]
        if np.any(d < 0) or np.any(d > C):
            viol.append(Viol(dict(sig, kind="dual-infeasible"), f"LinearSVC dual_coef_ outside [0, {C}]"))
        prim = (y * d) @ X
        if np.max(np.abs(prim - coef.ravel())) > 1e-10 * (1 + np.max(np.abs(prim))):
            viol.append(Viol(dict(sig, kind="primal-dual-link"), "LinearSVC.coef_ != sum_i y_i dual_coef_i x_i"))
        if stop <= tol and not viol:
            pcase = dict(X=case["X"], y=case["y"], datafit=dict(name="QuadraticSVC"), penalty=dict(name="IndicatorBox", alpha=C),
                         solver=dict(name="AndersonCD", fit_intercept=False, tol=tol, ws_strategy="subdiff"), storage="dense", init=None)
            c = c01.certificate(pcase, d, "subdiff")
            if c["feat"] > tol * (1 + 1e-6) + 1e-8 * float(np.max(c["gscale"])):
                viol.append(Viol(dict(sig, kind="not-stationary"), f"LinearSVC(C={C}): dual stationarity violated by {c['feat']:.3e} (tol {tol:g})"))
        return result(viol, nz and bool(nondefault), classes + nondefault)
    if not (stop <= tol) and not (pc and pc[2] == "FISTA" and stop < tol):
        return result(viol, False, classes + ["not-converged(inconclusive)"])
    # ---- certificate for the documented objective
    fam = pc[0]
    if fam.startswith("Cox:"):
        df = dict(name="Cox", use_efron=(fam.split(":")[1] == "efron"))
    elif fam.startswith("Huber"):
        df = dict(name="Huber", delta=case["delta"])
    else:
        df = dict(name=fam)
    if fam == "QuadraticGroup":
        df.update(groups=case["groups"], n_features=p)
    sname = pc[2]
    sv = dict(name=sname, tol=tol, fit_intercept=fi, ws_strategy=case.get("ws_strategy", "subdiff"))
    if sname in ("LBFGS", "FISTA"):
        sv.pop("fit_intercept")
    pcase = dict(X=case["X"], y=case["y"], datafit=df, penalty=pc[1], solver=sv, storage="dense", init=None)
    if est == "MultiTaskLasso":
        W = coef.T
        w = np.vstack([W, np.asarray(model.intercept_, float)[None, :]]) if fi else W
    else:
        c_ = coef.ravel()
        w = np.r_[c_, float(np.ravel(model.intercept_)[0])] if fi else c_
    strat = sv.get("ws_strategy", "subdiff") if sname in ("AndersonCD", "GroupBCD") else "subdiff"
    if sname == "MultiTaskBCD":
        strat = "subdiff"
    c = c01.certificate(pcase, w, strat)
    lim = (2. if sname == "FISTA" else 1.) * tol * (1 + 1e-6)
    exc = c["vec"] - lim - 1e-8 * c["gscale"]
    if (len(exc) and exc.max() > 0) or c["icpt"] > lim + 1e-8 * c["icpt_scale"]:
        viol.append(Viol(dict(sig, kind="not-stationary-for-documented-objective", args=",".join(sorted(set(a.split(":")[0] for a in nondefault))) or "defaults",
                              method=case.get("method")),
                         f"{est}({', '.join(nondefault) or 'defaults'}): stop_crit_={stop:.2e} <= tol={tol:g} but (coef_, intercept_) violates the first-order "
                         f"conditions of the DOCUMENTED objective by {max(c['feat'], c['icpt']):.3e}"))
    return result(viol, nz and bool(nondefault or not fi), classes + nondefault)
