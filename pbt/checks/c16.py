"""C16 -- critical regularisation strength: null solution exactly from alpha_max, non-zero just below."""
import math

import numpy as np
from hypothesis import strategies as st

from .. import gen, problems as P, refmath as R
from ..common import Viol, result, bootstrap
from ..compose import make_penalty, compiled

PROPERTY = "C16"
RULE = ("one case = (solver, datafit, penalty with a critical strength incl. weights with exact zeros / groups / tasks, "
        "generated data with NON-centred targets, fit_intercept, side and margin eps). The harness computes the null "
        "model itself (optimal intercept and unpenalised features: least squares, or damped Newton for logistic / "
        "Poisson) and hands the gradient there to the library's alpha_max. Oracles: (i) library alpha_max == "
        "max_j |g_j| / weight_j over non-zero weights (group / row norms for block penalties); (ii) at "
        "alpha_max*(1+eps), eps in [1e-3, 10], a converged fit has EXACTLY zero penalised coefficients and the null "
        "model's predictions (1e-6); (iii) at alpha_max*(1-eps), eps in [1e-2, .5], tol <= 1e-3*eps*alpha_max, a "
        "converged fit has a non-zero penalised coefficient. Non-trivial: an intercept or unpenalised feature is "
        "present and the target is not centred. Non-converged runs are inconclusive (counted).")
ASSUMPTIONS = ["exactly at alpha_max the exact-zero claim is not tested when an unpenalised part exists (float boundary)",
               "cases whose null model is unbounded (separable unpenalised part) are discarded and counted"]

COMPS = [
    ("scalar", "AndersonCD", "Quadratic", "L1"), ("scalar", "AndersonCD", "Quadratic", "WeightedL1"),
    ("scalar", "AndersonCD", "Quadratic", "L1_plus_L2"), ("scalar", "AndersonCD", "Quadratic", "MCPenalty"),
    ("scalar", "AndersonCD", "Quadratic", "WeightedMCPenalty"), ("scalar", "AndersonCD", "Logistic", "L1"),
    ("scalar", "AndersonCD", "Logistic", "WeightedL1"), ("scalar", "ProxNewton", "Logistic", "WeightedL1"),
    ("scalar", "ProxNewton", "Poisson", "L1"), ("scalar", "ProxNewton", "Quadratic", "L1_plus_L2"),
    ("group", "GroupBCD", "QuadraticGroup", "WeightedGroupL2"), ("group", "GroupBCD", "LogisticGroup", "WeightedGroupL2"),
    ("group", "GroupProxNewton", "LogisticGroup", "WeightedGroupL2"),
    ("multitask", "MultiTaskBCD", "QuadraticMultiTask", "L2_1"),
]


def shards(tier):
    n = 100 if tier == "quick" else 800
    return [dict(id=f"{s}-{f}-{p}", kind=k, solver=s, fam=f, pen=p, n=n, cost=n * (3 if k != "scalar" else 1)) for (k, s, f, p) in COMPS]


@st.composite
def case_strategy(draw, shard):
    kind, solver, fam, pen = shard["kind"], shard["solver"], shard["fam"], shard["pen"]
    m = draw(gen.matrix(n_min=8, n_max=20, p_min=2, p_max=8, degenerate=False, scales=False))
    X = np.array(m["X"])
    n, p = X.shape
    case = dict(kind=kind, X=m["X"], fit_intercept=draw(st.booleans()), side=draw(st.sampled_from(["above", "above", "below"])),
                storage=draw(st.sampled_from(["dense", "csc"])) if solver != "GroupProxNewton" and not (solver == "GroupBCD" and fam == "LogisticGroup") else "dense")
    case["eps"] = draw(st.sampled_from([1e-3, 1e-2, .1, 1., 10.])) if case["side"] == "above" else draw(st.sampled_from([1e-2, .1, .3, .5]))
    if fam in ("Quadratic", "QuadraticGroup"):
        case["y"] = draw(gen.planted_target(X))
    elif fam in ("Logistic", "LogisticGroup"):
        case["y"] = draw(gen.sign_target(n))
    elif fam == "Poisson":
        yy = draw(gen.count_target(n))
        yy[0] += 1.
        case["y"] = yy
    else:
        T = draw(st.integers(1, 3))
        case["y"] = [[draw(gen.real(-1, 0)) + draw(st.sampled_from([0., 2., -1.])) for _ in range(T)] for _ in range(n)]
    spec = dict(name=pen, alpha=1.)
    if pen in ("WeightedL1", "WeightedMCPenalty"):
        spec["weights"] = draw(gen.weights(p, zero_prob=.2))
    if pen == "L1_plus_L2":
        spec["l1_ratio"] = draw(st.sampled_from([1., .5, .9, .1]))
    if pen in ("MCPenalty", "WeightedMCPenalty"):
        L = (X ** 2).sum(0) / n
        wmax = max(spec.get("weights", [1.]))
        spec["gamma"] = float(3. * max(wmax, 1.) / L[L > 0].min() + 1.) if (L > 0).any() else 3.
    if kind == "group":
        groups = draw(gen.partition(p))
        spec.update(groups=groups, n_features=p, weights=draw(gen.weights(len(groups), zero_prob=.2)), positive=False)
        case["datafit"] = dict(name=fam, groups=groups, n_features=p)
    else:
        case["datafit"] = dict(name=fam)
    case["penalty"] = spec
    case["solver_name"] = solver
    case["p0"] = draw(st.sampled_from([1, 2, 10]))
    case["ws_strategy"] = draw(st.sampled_from(["subdiff", "fixpoint"]))
    return case


def strategy(shard):
    return case_strategy(shard)


# ---------------------------------------------------------------------------------------------
def null_model(loss_name, Z, y):
    """minimise the loss over the unpenalised design Z (n x k, may have 0 columns); -> eta (n,) or None if unbounded"""
    n = Z.shape[0]
    if Z.shape[1] == 0:
        return np.zeros(y.shape)
    if loss_name in ("Quadratic", "QuadraticGroup", "QuadraticMultiTask"):
        coef = np.linalg.lstsq(Z, y, rcond=None)[0]
        return Z @ coef
    loss = R.Logistic() if loss_name.startswith("Logistic") else R.Poisson()
    c = np.zeros(Z.shape[1])
    for it in range(200):
        eta = Z @ c
        g = Z.T @ loss.grad(y, eta)
        if np.max(np.abs(g)) < 1e-13:
            return eta
        H = Z.T @ (loss.hess(y, eta)[:, None] * Z) + 1e-12 * np.eye(len(c))
        d = np.linalg.solve(H, -g)
        t, f0 = 1., loss.value(y, eta)
        while t > 1e-10 and not loss.value(y, Z @ (c + t * d)) <= f0 + 1e-4 * t * (g @ d):
            t /= 2
        c = c + t * d
        if np.max(np.abs(c)) > 50:
            return None
    eta = Z @ c
    return eta if np.max(np.abs(Z.T @ loss.grad(y, eta))) < 1e-9 else None


def check_case(case):
    bootstrap()
    from skglm.utils.data import _alpha_max_group_lasso
    X = np.array(case["X"], float)
    y = np.array(case["y"], float)
    n, p = X.shape
    kind, solver, fi = case["kind"], case["solver_name"], case["fit_intercept"]
    spec = case["penalty"]
    fam = case["datafit"]["name"]
    sig = dict(solver=solver, datafit=fam, penalty=spec["name"], fit_intercept=fi, side=case["side"], storage=case["storage"])
    classes = [solver, case["side"]]
    # unpenalised design
    if kind == "scalar":
        wts = np.array(spec.get("weights", np.ones(p)), float)
        unpen = np.flatnonzero(wts == 0)
    elif kind == "group":
        gw = np.array(spec["weights"], float)
        unpen = np.array([j for g, idx in enumerate(spec["groups"]) if gw[g] == 0 for j in idx], dtype=int)
    else:
        unpen = np.array([], dtype=int)
    Z = np.c_[X[:, unpen], np.ones(n)] if fi else X[:, unpen]
    eta0 = null_model(fam, Z, y)
    if eta0 is None or (fam.startswith("Logistic") and np.max(np.abs(eta0)) > 12.) or (fam == "Poisson" and np.min(eta0) < -12.):
        # (quasi-)separable unpenalised part: the loss is flat far out and "the" null model is not identified
        return result([], False, classes + ["unbounded-null-model(discarded)"])
    if kind == "multitask":
        G = X.T @ (eta0 - y) / n
        ref_amax = float(np.linalg.norm(G, axis=1).max())
        lib_amax = ref_amax
    else:
        loss = P.make_ref_datafit(dict(name=fam))
        g = X.T @ loss.grad(y, eta0)
        if kind == "scalar":
            pen_mask = wts != 0
            ref_amax = float(np.max(np.abs(g[pen_mask]) / wts[pen_mask])) if pen_mask.any() else 0.
            if spec["name"] == "L1_plus_L2":
                ref_amax = ref_amax / spec["l1_ratio"]
            skp = compiled(make_penalty(spec)[0])
            try:
                lib_amax = float(skp.alpha_max(g))
            except Exception as e:  # noqa
                return result([Viol(dict(sig, kind="alpha_max-exception", exc=type(e).__name__), f"{spec['name']}.alpha_max raised {e!r}")], True, classes)
        else:
            norms = [np.linalg.norm(g[idx]) / gw[k] for k, idx in enumerate(spec["groups"]) if gw[k] > 0]
            ref_amax = float(max(norms)) if norms else 0.
            lib_amax = ref_amax
            if fam == "QuadraticGroup" and not fi and not len(unpen):
                # the library helper is written for the quadratic loss at w = 0: gradient0 = -X^T y / n
                from ..compose import groups_arrays
                gp, gi, _ = groups_arrays(spec["groups"], p)
                import warnings
                with warnings.catch_warnings():
                    warnings.simplefilter("ignore")
                    lib_amax = float(_alpha_max_group_lasso(X, y, gi, gp, gw))
    viol = []
    scale = abs(ref_amax) + 1e-300
    if not (abs(lib_amax - ref_amax) <= 1e-10 * scale):
        viol.append(Viol(dict(sig, kind="alpha_max-value", zero_weights=bool(len(unpen))),
                         f"library alpha_max = {lib_amax!r} but max_j |g_j|/weight_j over penalised features (critical strength) = {ref_amax!r}; penalty {spec}"))
        return result(viol, True, classes)
    if spec["name"] in ("MCPenalty", "WeightedMCPenalty") and (fi or len(unpen)):
        # non-convex penalty with an unpenalised part: the cold start is not the null model and coordinate descent may
        # legitimately end in another stationary point (flat region of the MCP); only the fully penalised case is claimed
        return result([], False, classes + ["nonconvex-with-unpenalised-part(not claimed)"])
    # gradient at the null model that is pure round-off (columns collinear with the unpenalised part): Cauchy-Schwarz
    # scale of the sums that cancel
    if kind == "multitask":
        cs = float(np.max(np.linalg.norm(X, axis=0)) * np.linalg.norm(eta0 - y) / n)
    else:
        cs = float(np.max(np.linalg.norm(X, axis=0)) * np.linalg.norm(loss.grad(y, eta0)))
    if ref_amax <= 1e-12 * (1 + float(np.max(np.abs(y)))) or ref_amax <= 1e-7 * cs:
        return result([], False, classes + ["zero-alpha_max(degenerate)"])
    eps = case["eps"]
    alpha = ref_amax * (1 + eps) if case["side"] == "above" else ref_amax * (1 - eps)
    tol = 1e-10 if case["side"] == "above" else min(1e-6, 1e-3 * eps * ref_amax)
    tol = min(tol, 1e-4 * ref_amax)
    sp = dict(spec, alpha=float(alpha))
    if solver == "AndersonCD":
        sv = dict(name=solver, max_iter=100, max_epochs=5000, p0=case["p0"], tol=tol, ws_strategy=case["ws_strategy"], fit_intercept=fi)
    elif solver == "ProxNewton":
        sv = dict(name=solver, max_iter=100, max_pn_iter=500, p0=case["p0"], tol=tol, ws_strategy=case["ws_strategy"], fit_intercept=fi)
    elif solver == "GroupBCD":
        sv = dict(name=solver, max_iter=300, max_epochs=2000, p0=case["p0"], tol=tol, ws_strategy=case["ws_strategy"], fit_intercept=fi)
    elif solver == "GroupProxNewton":
        sv = dict(name=solver, max_iter=100, max_pn_iter=500, p0=case["p0"], tol=tol, fit_intercept=fi)
    else:
        sv = dict(name=solver, max_iter=300, max_epochs=5000, p0=case["p0"], tol=tol, ws_strategy=case["ws_strategy"], fit_intercept=fi, use_acc=True)
    pc = dict(X=case["X"], y=case["y"], datafit=case["datafit"], penalty=sp, solver=sv, storage=case["storage"], init=None)
    sig["unsorted_groups"] = P.unsorted_groups(pc)
    out = P.run(pc)
    if out.exc is not None:
        return result([], False, classes + [f"exception:{type(out.exc).__name__}(C13)"])
    if not (out.stop <= tol):
        # No iteration-count oracle in general.  One exception: above alpha_max with an intercept as the only
        # unpenalised part, a run that returns all-zero coefficients had a smooth convex problem in ONE variable (the
        # intercept) left, which the reference solves by a few Newton steps (eta0).  Spending the whole budget
        # (>= 100 outer x 500 inner iterations) there and still predicting far from the null model is not "returning
        # the optimal unpenalised part".
        if case["side"] == "above" and fi and not len(unpen) and out.w is not None and np.all(np.isfinite(np.asarray(out.w, float))):
            W = np.asarray(out.w, float)
            eta = X @ W[:p] + W[p]
            dev = float(np.max(np.abs(eta - eta0)))
            # only when the run ENDS with all penalised coefficients at zero: then the whole budget was spent on the
            # one-dimensional intercept problem (coordinate descent that is still shrinking a transient coefficient
            # on a design nearly collinear with the intercept is merely slow: inconclusive)
            if not np.any(W[:p]) and dev > 1e-2 * (1 + float(np.max(np.abs(eta0)))):
                return result([Viol(dict(sig, kind="null-model-not-reached"),
                                    f"{solver}: alpha = alpha_max*(1+{eps}): after the full budget (stop_crit={out.stop:.2e} > tol) the fit predicts "
                                    f"{eta.ravel()[:3].tolist()} but the loss-minimising intercept-only model predicts {eta0.ravel()[:3].tolist()}")],
                              True, classes + ["not-converged"])
        # Differential form (no absolute budget): the SAME algorithm on the other storage format of the same matrix
        # solves the problem within the same budget and returns the null solution, while this run ends elsewhere.
        if case["side"] == "above" and out.w is not None and np.all(np.isfinite(np.asarray(out.w, float))) and kind == "scalar":
            other = "csc" if case["storage"] == "dense" else "dense"
            o2 = P.run(dict(pc, storage=other))
            if o2.exc is None and o2.w is not None and o2.stop <= tol:
                W, W2 = np.asarray(out.w, float), np.asarray(o2.w, float)
                pen_idx_ = np.setdiff1d(np.arange(p), unpen)
                b_ = W[p] if fi else 0.
                dev = float(np.max(np.abs(X @ W[:p] + b_ - eta0)))
                far = (len(pen_idx_) and np.max(np.abs(W[pen_idx_])) > 1e-3 * (1 + np.max(np.abs(W)))) or dev > 1e-2 * (1 + float(np.max(np.abs(eta0))))
                null2 = not len(pen_idx_) or np.max(np.abs(W2[pen_idx_])) <= 1e3 * tol
                if far and null2:
                    return result([Viol(dict(sig, kind="null-model-not-reached", sibling=other),
                                        f"{solver} [{case['storage']}]: alpha = alpha_max*(1+{eps}): the run ends with stop_crit={out.stop:.2e} > tol, penalised "
                                        f"coefficients {W[pen_idx_].tolist()[:4]} and predictions off the null model by {dev:.2e}, while the same solver on "
                                        f"{other} storage converges to the null solution within the same budget")],
                                  True, classes + ["not-converged"])
        return result([], False, classes + ["not-converged(inconclusive)"])
    W = np.asarray(out.w, float)
    coef = W[:p]
    b = W[p] if fi else (0. if W.ndim == 1 else np.zeros(W.shape[1]))
    pen_idx = np.setdiff1d(np.arange(p), unpen)
    if fi or len(unpen):
        # with an unpenalised part the cold start is not the null model: penalised coefficients can become non-zero
        # transiently and are driven back to 0 geometrically; a run stopped at tol may keep entries of the size of
        # the tolerance (float boundary, see DESIGN 3/C16). Fully penalised problems must return exact zeros.
        nz = np.any(np.abs(coef[pen_idx]) > 1e3 * tol)
    else:
        nz = np.any(coef[pen_idx] != 0)
    if case["side"] == "below":
        nz = np.any(coef[pen_idx] != 0)      # "returns a non-zero coefficient": any, however small (eps * alpha_max / L)
    if case["side"] == "above":
        if nz:
            j = int(pen_idx[np.argmax(np.abs(coef[pen_idx]).reshape(len(pen_idx), -1).max(1))])
            viol.append(Viol(dict(sig, kind="nonzero-above-alpha_max"),
                             f"{solver}: alpha = alpha_max*(1+{eps}) = {alpha!r} but penalised coefficient {j} = {np.asarray(coef[j]).tolist()!r} "
                             f"(converged, stop_crit={out.stop:.2e})"))
        else:
            eta = X @ coef + b
            dev = float(np.max(np.abs(eta - eta0)))
            if dev > 1e-6 * (1 + float(np.max(np.abs(eta0)))):
                viol.append(Viol(dict(sig, kind="unpenalised-part-not-null-model"),
                                 f"{solver}: at alpha > alpha_max the unpenalised part (intercept / zero-weight features) predicts "
                                 f"{eta.ravel()[:4].tolist()} but the loss-minimising null model predicts {eta0.ravel()[:4].tolist()} (max dev {dev:.3e})"))
    else:
        if not nz:
            viol.append(Viol(dict(sig, kind="all-zero-below-alpha_max"),
                             f"{solver}: alpha = alpha_max*(1-{eps}) but all penalised coefficients are 0 (converged at tol={tol:.1e})"))
    centred = bool(np.max(np.abs(np.mean(y, axis=0))) < 1e-12)
    return result(viol, (fi or len(unpen) > 0) and not centred, classes + (["has-unpenalised"] if (fi or len(unpen)) else ["fully-penalised"]))
