"""C17 -- the objective history, stop_crit and n_iter_ describe the run that happened."""
import json
import math

import numpy as np
from hypothesis import strategies as st

from .. import gen, problems as P
from ..common import Viol, result, bootstrap
from . import c01

PROPERTY = "C17"
RULE = ("one case = composition + generated data + knobs with a small outer budget M in 1..8 (and inner budgets "
        "from {1,2,5,6,7,8,10,11,13,14,100,1000}) so that both budget-exhausted and early-converged runs occur, cold "
        "or warm start, with/without intercept and positivity. Oracles (no hooks; trajectories are deterministic so a "
        "budget-k run is a prefix of a budget-M run): (a) a run that does not claim convergence has exactly M history "
        "entries; a run that claims it (criterion tested at the start of an iteration) has < M; (b) for every "
        "k <= len(history) the budget-k run returns a point whose refmath objective (intercept unpenalised, +inf if "
        "infeasible) equals history[k-1] (rel 1e-9) and whose own history is the length-k prefix; in particular the "
        "last entry is the objective of the returned point; no padding; (c) when stopped on tolerance, stop_crit "
        "equals the optimality violation of the returned point recomputed with refmath; (d) estimators: n_iter_ "
        "obeys (a) w.r.t. max_iter and the estimator's stop_crit_. Non-trivial: >= 2 outer iterations performed and an "
        "intercept or positivity constraint is active.")
ASSUMPTIONS = ["LBFGS delegates to scipy: only 'last entry = objective of the returned point' and len <= max_iter are judged",
               "PDCD_WS is judged on (a) and the last-entry rule only"]

COMPS = [
    ("scalar", "AndersonCD", "Quadratic", "L1"), ("scalar", "AndersonCD", "Logistic", "WeightedL1"),
    ("scalar", "AndersonCD", "Quadratic", "MCPenalty"), ("scalar", "AndersonCD", "QuadraticSVC", "IndicatorBox"),
    ("scalar", "AndersonCD", "Huber", "L1_plus_L2"),
    ("scalar", "ProxNewton", "Logistic", "L1"), ("scalar", "ProxNewton", "Poisson", "WeightedL1"),
    ("scalar", "ProxNewton", "Quadratic", "L1_plus_L2"),
    ("scalar", "GramCD", "Quadratic", "L1"), ("scalar", "GramCD", "Quadratic", "WeightedL1"),
    ("scalar", "FISTA", "Quadratic", "L1"), ("scalar", "LBFGS", "Logistic", "L2"),
    ("group", "GroupBCD", "QuadraticGroup", "WeightedGroupL2"), ("group", "GroupBCD", "LogisticGroup", "WeightedGroupL2"),
    ("group", "GroupProxNewton", "LogisticGroup", "WeightedGroupL2"),
    ("multitask", "MultiTaskBCD", "QuadraticMultiTask", "L2_1"), ("multitask", "MultiTaskBCD", "QuadraticMultiTask", "BlockMCPenalty"),
]
ESTIMATORS = ["Lasso", "ElasticNet", "GroupLasso", "MultiTaskLasso", "SparseLogisticRegression", "MCPRegression"]
CHECK_AT_START = ("AndersonCD", "ProxNewton", "GramCD", "GroupBCD", "GroupProxNewton", "MultiTaskBCD", "PDCD_WS")


def shards(tier):
    n = 200 if tier == "quick" else 800
    out = [dict(id=f"{s}-{f}-{p}", kind=k, solver=s, fam=f, pen=p, n=n, cost=n * (4 if k != "scalar" else 2)) for (k, s, f, p) in COMPS]
    out += [dict(id=f"est-{e}", kind="estimator", est=e, n=n // 2, cost=n * 3) for e in ESTIMATORS]
    return out


@st.composite
def budgeted(draw, base):
    case = draw(base)
    s = case["solver"]
    s["max_iter"] = draw(st.integers(1, 8))
    if s["name"] == "FISTA":
        # one FISTA iteration is one proximal-gradient step: stopping on tolerance needs hundreds of them; L1 has no
        # prox_vec, so the `fixpoint` strategy is refused (C13's business) -- keep the strategy that runs
        s["max_iter"] = draw(st.sampled_from([1, 3, 8, 50, 500, 3000]))
        s["opt_strategy"] = "subdiff"
    if draw(st.booleans()):
        s["tol"] = draw(st.sampled_from([1e-1, 1e-2, 1e-3]))     # make early convergence frequent
    if "alpha" in case["penalty"] and case["penalty"]["name"] != "IndicatorBox" and draw(st.booleans()):
        case["penalty"]["alpha"] *= .1     # fewer all-zero solutions: more runs with >= 2 outer iterations
    if "fit_intercept" in s and case["datafit"] and case["datafit"]["name"] != "QuadraticSVC" and draw(st.booleans()):
        s["fit_intercept"] = True
        if case.get("init") is not None:
            nv = np.array(case["X"]).shape[1]
            w0 = case["init"]["w"]
            if len(w0) == nv:
                case["init"]["w"] = w0 + ([[0.] * len(w0[0])] if isinstance(w0[0], list) else [0.])
    for k in ("max_epochs", "max_pn_iter"):
        if k in s:
            s[k] = draw(st.sampled_from([1, 2, 5, 6, 7, 8, 10, 11, 13, 14, 100, 1000]))
    return case


@st.composite
def estimator_case(draw, est):
    m = draw(gen.matrix(n_min=4, n_max=16, p_min=2, p_max=8, degenerate=False))
    X = np.array(m["X"])
    n, p = X.shape
    case = dict(kind="estimator", est=est, X=m["X"], max_iter=draw(st.integers(1, 8)),
                tol=draw(st.sampled_from([1e-1, 1e-2, 1e-4, 1e-6])), fit_intercept=draw(st.booleans()),
                frac=draw(st.sampled_from([.05, .3, .7])), storage=draw(st.sampled_from(["dense", "csc"])))
    if est == "SparseLogisticRegression":
        case["y"] = draw(gen.sign_target(n))
    elif est == "MultiTaskLasso":
        T = draw(st.integers(1, 3))
        case["y"] = [[draw(gen.real(-1, 0)) + i % 2 for _ in range(T)] for i in range(n)]
        case["storage"] = "dense"
    else:
        case["y"] = draw(gen.planted_target(X))
    if est in ("Lasso", "ElasticNet", "MCPRegression", "GroupLasso"):
        case["positive"] = draw(st.booleans())
    if est == "GroupLasso":
        case["groups"] = draw(gen.partition(p, max_groups=4))
    return case


def strategy(shard):
    if shard["kind"] == "estimator":
        return estimator_case(shard["est"])
    if shard["kind"] == "scalar":
        if shard["solver"] == "LBFGS":
            return budgeted(c01.lbfgs_case(shard["fam"]))
        return budgeted(P.scalar_case(shard["solver"], shard["fam"], shard["pen"], sizes=(3, 16, 1, 10), generous=False))
    if shard["kind"] == "group":
        return budgeted(P.group_case(shard["solver"], shard["fam"], generous=False))
    return budgeted(P.multitask_case(shard["pen"], generous=False))


def true_objective(case, w, buf=None):
    if case["solver"]["name"] == "MultiTaskBCD":
        return P.multitask_objective(case, w, buf)
    return P.objective(case, w, buf)


def observed(case):
    """run with an observable model-fit buffer (explicit zero buffers for cold starts: same trajectory, see C01)"""
    out = P.run(case, explicit_zero=True)
    buf = out.Xw if (out.exc is None and case["solver"]["name"] not in ("GramCD", "LBFGS", "FISTA")) else None
    return out, buf


def overflow_domain(case, w, buf):
    """|eta| beyond ~500: exp() in the loss formulas overflows (floating-point domain, not judged here)"""
    d = case["datafit"]
    if d is None or d["name"] not in ("Logistic", "LogisticGroup", "Poisson", "Gamma", "Cox"):
        return False
    X = np.array(case["X"], float)
    ww, b, _ = P.split(case, w)
    eta = X @ ww + b if buf is None else np.asarray(buf, float)
    return bool(np.max(np.abs(eta)) > 500.)


def close(a, b, rel=1e-9, scale=0.):
    if math.isinf(a) or math.isinf(b):
        return a == b
    return abs(a - b) <= rel * (abs(a) + abs(b) + scale) + 1e-300


def check_case(case):
    bootstrap()
    if case.get("kind") == "estimator":
        return check_estimator(case)
    s = case["solver"]
    name, M, tol = s["name"], s["max_iter"], s["tol"]
    sig = dict(solver=name, datafit=(case["datafit"] or {}).get("name", "None"), penalty=case["penalty"]["name"],
               fit_intercept=bool(s.get("fit_intercept", False)), positive=bool(case["penalty"].get("positive", False)),
               storage=case["storage"])
    out, buf = observed(case)
    classes = [name]
    if out.exc is not None:
        return result([], False, classes + [f"exception:{type(out.exc).__name__}(C13)"])
    viol = []
    obj = np.asarray(out.obj, float)
    t = len(obj)
    if not np.all(np.isfinite(np.asarray(out.w, float))):
        return result([], False, classes + ["non-finite-output(C04/C13)"])
    claims = out.stop < tol if name == "FISTA" else out.stop <= tol
    classes.append("claims-convergence" if claims else "budget-exhausted")
    # objective magnitude scale for comparisons (loss terms cancel at scale of y^2 ...)
    # (a) length
    if name == "LBFGS":
        if t > M:
            viol.append(Viol(dict(sig, kind="history-length"), f"LBFGS: {t} history entries for max_iter={M}"))
    elif not claims:
        if t != M:
            viol.append(Viol(dict(sig, kind="history-length", claim=False),
                             f"{name}: run exhausted its budget max_iter={M} (stop_crit={out.stop:.2e} > tol={tol:g}) but the history has {t} entries"))
    elif name in CHECK_AT_START and t >= M:
        viol.append(Viol(dict(sig, kind="history-length", claim=True),
                         f"{name}: convergence claimed (tested at the start of an iteration) yet the history has {t} entries for max_iter={M}"))
    # (b) entries are the objectives of the prefix iterates
    if t >= 1 and overflow_domain(case, out.w, buf):
        classes.append("overflow-domain(skipped)")
    elif t >= 1:
        F = true_objective(case, out.w, buf)
        sc = obj_scale(case)
        if not close(float(obj[-1]), F, 1e-9, sc):
            pad = bool(obj[-1] == 0. and F != 0.)
            kind = "last-entry-mismatch"
            comp = "zero-padding" if pad else ("intercept-penalised" if icpt_penalised(case, out.w, obj[-1], sc) else "other")
            viol.append(Viol(dict(sig, kind=kind, nature=comp),
                             f"{name}: last history entry {obj[-1]!r} but the objective of the returned point is {F!r} ({t} entries, max_iter={M})"))
        elif name != "LBFGS" and t <= 8:
            for k in range(1, t):
                c = json.loads(json.dumps(case))
                c["solver"]["max_iter"] = k
                ok_, bufk = observed(c)
                if ok_.exc is not None or overflow_domain(c, ok_.w, bufk):
                    break
                if len(ok_.obj) != k or not np.array_equal(np.asarray(ok_.obj), obj[:k]):
                    viol.append(Viol(dict(sig, kind="history-not-a-prefix"),
                                     f"{name}: budget-{k} run has history {np.asarray(ok_.obj).tolist()} but the budget-{M} run starts with {obj[:k].tolist()}"))
                    break
                Fk = true_objective(case, ok_.w, bufk)
                if not close(float(obj[k - 1]), Fk, 1e-9, sc):
                    viol.append(Viol(dict(sig, kind="entry-mismatch", nature="intercept-penalised" if icpt_penalised(case, ok_.w, obj[k - 1], sc) else "other"),
                                     f"{name}: history[{k - 1}] = {obj[k - 1]!r} but the iterate after {k} outer iterations has objective {Fk!r}"))
                    break
        if not np.all(np.isfinite(obj)) and math.isfinite(F):
            viol.append(Viol(dict(sig, kind="non-finite-history"), f"{name}: non-finite history {obj.tolist()} for a feasible returned point"))
    # (c) stop_crit is the violation of the returned point
    if claims and name not in ("LBFGS", "PDCD_WS") and not viol and not (name == "FISTA" and s.get("opt_strategy") != "subdiff"):
        strat = s.get("ws_strategy") or "subdiff"
        if name in ("GramCD", "GroupProxNewton", "FISTA"):
            strat = "subdiff"
        c = c01.certificate(case, out.w, strat, eta_buf=buf)
        v = max(c["feat"], c["icpt"])
        slack = 1e-7 * (float(np.max(c["gscale"])) if len(c["gscale"]) else 0.) if buf is None else 1e-10 * (float(np.max(c["gscale"])) if len(c["gscale"]) else 0.)
        if abs(v - out.stop) > 1e-6 * max(v, out.stop) + slack + 1e-10 * c["icpt_scale"]:
            viol.append(Viol(dict(sig, kind="stop-crit-mismatch", direction="under" if out.stop < v else "over"),
                             f"{name}: stopped on tolerance with stop_crit={out.stop!r} but the recomputed {strat} violation of the returned point is {v!r}"))
    nontrivial = t >= 2 and (sig["fit_intercept"] or sig["positive"] or case["penalty"]["name"] in ("IndicatorBox", "PositiveConstraint"))
    classes.append(f"iters={min(t, 8)}")
    return result(viol, nontrivial, classes)


def obj_scale(case):
    y = np.asarray(case["y"], float)
    if y.ndim == 2 and case["datafit"] and case["datafit"]["name"] == "Cox":
        return 1.
    return float((y ** 2).sum() / (2 * max(1, y.shape[0])))


def icpt_penalised(case, w, reported, sc):
    """does `reported` equal the objective with the intercept fed to the penalty? (root-cause label only)"""
    try:
        s = case["solver"]
        if not s.get("fit_intercept") or s["name"] in ("GramCD", "LBFGS", "FISTA"):
            return False
        pen = P.ref_penalty(case)
        w = np.asarray(w, float)
        if w.ndim == 2:
            extra = pen.psi(float(np.linalg.norm(w[-1])), 0)
        else:
            extra = pen.phi(float(w[-1]), 0) if hasattr(pen, "phi") else 0.
        F = true_objective(case, w)
        return close(float(reported), F + extra, 1e-9, sc) and extra != 0
    except Exception:  # noqa
        return False


# ---------------------------------------------------------------------------------------------
def check_estimator(case):
    import skglm
    from scipy import sparse
    est = case["est"]
    X = np.array(case["X"], float)
    y = np.array(case["y"], float)
    n, p = X.shape
    M, tol, fi = case["max_iter"], case["tol"], case["fit_intercept"]
    Xin = sparse.csc_matrix(X) if case["storage"] == "csc" else X
    if est == "MultiTaskLasso":
        amax = np.linalg.norm(X.T @ (y - y.mean(0) * fi), axis=1).max() / n
    elif est == "SparseLogisticRegression":
        amax = np.abs(X.T @ y).max() / (2 * n)
    else:
        amax = np.abs(X.T @ (y - y.mean() * fi)).max() / n
    alpha = float(amax * case["frac"]) or 1.
    kw = dict(alpha=alpha, max_iter=M, tol=tol, fit_intercept=fi)
    if est == "Lasso":
        model = skglm.Lasso(positive=case["positive"], **kw)
    elif est == "ElasticNet":
        model = skglm.ElasticNet(l1_ratio=.5, positive=case["positive"], **kw)
    elif est == "MCPRegression":
        L = (X ** 2).sum(0) / n
        model = skglm.MCPRegression(gamma=float(3. / L[L > 0].min() + 1) if (L > 0).any() else 3., positive=case["positive"], **kw)
    elif est == "GroupLasso":
        model = skglm.GroupLasso(groups=case["groups"], positive=case["positive"], **kw)
    elif est == "MultiTaskLasso":
        model = skglm.MultiTaskLasso(**kw)
    elif est == "SparseLogisticRegression":
        model = skglm.SparseLogisticRegression(**kw)
    sig = dict(estimator=est, fit_intercept=fi, storage=case["storage"])
    try:
        import warnings
        with warnings.catch_warnings():
            warnings.simplefilter("ignore")
            model.fit(Xin, y)
    except Exception as e:  # noqa
        return result([], False, [est, f"exception:{type(e).__name__}(C10/C11)"])
    viol = []
    t = int(model.n_iter_)
    stop = float(getattr(model, "stop_crit_", getattr(model, "stopping_crit", np.nan)))
    claims = stop <= tol
    if not claims and t != M:
        viol.append(Viol(dict(sig, kind="n_iter", claim=False), f"{est}: not converged (stop_crit_={stop:.2e} > tol={tol:g}) after max_iter={M} but n_iter_={t}"))
    if claims and t >= M:
        viol.append(Viol(dict(sig, kind="n_iter", claim=True), f"{est}: converged (stop_crit_={stop:.2e} <= tol={tol:g}) but n_iter_={t} with max_iter={M}: "
                         "convergence is detected at the start of an iteration, so fewer than max_iter iterations were performed"))
    return result(viol, t >= 2 and (fi or case.get("positive", False)), [est, "claims-convergence" if claims else "budget-exhausted", f"iters={t}"])
