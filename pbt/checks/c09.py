"""C09 -- Lipschitz constants are valid curvature bounds; raw_hessian equals / dominates the Hessian."""
import math

import numpy as np
from hypothesis import strategies as st

from .. import gen, refmath as R
from ..common import Viol, result, bootstrap
from ..compose import make_datafit, compiled, to_container

PROPERTY = "C09"
RULE = ("one case = (datafit + hyper-parameters, X of any scaling / rank / sparsity incl. zero and sign-cancelling "
        "columns, target, point eta = Xw). Oracles: coordinate / group constants == documented formula for dense "
        "input and >= X_B^T diag(h(eta)) X_B's top eigenvalue at the drawn point and at the analytic maximiser of h; "
        "global constant >= lambda_max(X^T diag(h) X) and == the documented value for dense input; sparse variants "
        "<= true*(1+1e-9) and >= 0.95*true (power method, numba RNG seeded per case); raw_hessian == d2f/deta2 or "
        "(Cox, sqrt loss) diag(raw_hessian) - H_true >= -1e-9 PSD; sparse == dense. Non-trivial: X has >= 2 columns "
        "that are not orthogonal.")
ASSUMPTIONS = ["numba's RNG (used by spectral_norm) is seeded by the harness from a drawn integer, so runs are reproducible",
               "the power method is allowed a 5% under-estimate of L (Kuczynski-Wozniakowski bound, 100 iterations, n <= 40)"]

FAMILIES = ["Quadratic", "WeightedQuadratic", "Logistic", "Huber", "QuadraticSVC", "QuadraticGroup", "LogisticGroup",
            "QuadraticMultiTask", "Cox-breslow", "Cox-efron", "Poisson", "Gamma", "SqrtQuadratic"]


def shards(tier):
    n = 400 if tier == "quick" else 8000
    return [dict(id=f, fam=f, n=n) for f in FAMILIES]


@st.composite
def case_strategy(draw, fam):
    if draw(st.integers(0, 3)) == 0:
        # clustered leading singular values (one-hot / contrast coding with nearly balanced categories): the regime in
        # which a power method needs its full iteration budget
        k = draw(st.integers(3, 6))
        msz = draw(st.integers(6, 10))
        sizes = [msz + draw(st.sampled_from([0, 0, 1])) for _ in range(k)]
        n = sum(sizes)
        X = np.zeros((n, k))
        r = 0
        for j, sz in enumerate(sizes):
            X[r:r + sz, j] = draw(st.sampled_from([1., 1., -1., 2.]))
            r += sz
        m = dict(X=X.tolist(), n=n, p=k, flags=["clustered-spectrum"])
    else:
        m = draw(gen.matrix(n_min=2, n_max=16, p_min=1, p_max=8))
    n, p = m["n"], m["p"]
    X = np.array(m["X"])
    if draw(st.integers(0, 5)) == 0 and p >= 2:    # sign-cancelling pair
        X[:, 1] = -X[:, 0]
        m["flags"].append("cancelling-cols")
    case = dict(fam=fam, X=X.tolist(), flags=m["flags"], rng=draw(st.integers(0, 2 ** 31 - 1)),
                w=[draw(gen.real(-2, 0, zero=.3)) for _ in range(p)])
    spec = dict(name=fam)
    if fam == "WeightedQuadratic":
        spec["sample_weights"] = [draw(st.integers(1, 40)) / 10. for _ in range(n)]
    if fam == "Huber":
        spec["delta"] = draw(gen.pos_float(-2, 1))
    if fam in ("Logistic", "LogisticGroup", "QuadraticSVC"):
        case["y"] = draw(gen.sign_target(n))
    elif fam == "Poisson":
        case["y"] = draw(gen.count_target(n))
    elif fam == "Gamma":
        case["y"] = draw(gen.positive_target(n))
    elif fam.startswith("Cox"):
        spec = dict(name="Cox", use_efron=fam.endswith("efron"))
        case["y"] = draw(gen.survival_target(n))
    elif fam == "QuadraticMultiTask":
        T = draw(st.integers(1, 3))
        case["y"] = [[draw(gen.real(-1, 0)) for _ in range(T)] for _ in range(n)]
    else:
        case["y"] = draw(gen.real_target(n))
    if fam in ("QuadraticGroup", "LogisticGroup"):
        spec["groups"] = draw(gen.partition(p, max_groups=4))
        spec["n_features"] = p
    case["datafit"] = spec
    return case


def strategy(shard):
    return case_strategy(shard["fam"])


_seed_fn = None


def seed_numba(k):
    global _seed_fn
    if _seed_fn is None:
        import numba

        @numba.njit
        def _s(v):
            np.random.seed(v)
        _seed_fn = _s
    _seed_fn(int(k))


def lam_max(A):
    if A.size == 0:
        return 0.
    return float(np.linalg.eigvalsh((A + A.T) / 2)[-1])


def check_case(case):
    bootstrap()
    fam, spec = case["fam"], case["datafit"]
    X = np.array(case["X"], float)
    y = np.array(case["y"], float)
    n, p = X.shape
    if fam == "QuadraticSVC":
        Xd = np.asfortranarray((y[:, None] * X).T)
    else:
        Xd = np.asfortranarray(X)
    nn, pp = Xd.shape
    Xs = to_container(Xd, "csc")
    sp = (Xs.data, Xs.indptr, Xs.indices)
    sk_df, loss = make_datafit(spec)
    df = compiled(sk_df)
    if hasattr(df, "initialize"):
        df.initialize(Xd, y)
    seed_numba(case["rng"])
    viol = []
    nm = spec["name"]
    sig0 = dict(datafit=nm)
    classes = [fam] + [f for f in case["flags"] if f in ("zero-col", "dup-col", "col-scales", "cancelling-cols", "clustered-spectrum")]

    def bad(kind, accessor, msg, **extra):
        viol.append(Viol(dict(sig0, kind=kind, accessor=accessor, **extra), f"{fam}.{accessor}: {msg}"))

    def call(name, f):
        try:
            return f()
        except Exception as e:  # noqa
            bad("exception", name, repr(e)[:300].replace("\n", " "), exc=type(e).__name__)
            return None

    # sup over eta of the diagonal Hessian weights h_i (documented curvature bound of each loss)
    hmax = None
    if nm in ("Quadratic", "Huber", "QuadraticGroup", "QuadraticMultiTask"):
        hmax = np.ones(nn) / nn
    elif nm == "WeightedQuadratic":
        sw = np.array(spec["sample_weights"])
        hmax = sw / sw.sum()
    elif nm in ("Logistic", "LogisticGroup"):
        hmax = np.ones(nn) / (4 * nn)
    elif nm == "QuadraticSVC":
        hmax = np.ones(nn)

    # ---- coordinate / group constants
    if hasattr(df, "get_lipschitz") and hmax is not None:
        L = call("get_lipschitz", lambda: np.asarray(df.get_lipschitz(Xd, y), float))
        if L is not None:
            if "groups" in spec:
                blocks = [np.array(g) for g in spec["groups"]]
            else:
                blocks = [np.array([j]) for j in range(pp)]
            if L.shape != (len(blocks),):
                bad("shape", "get_lipschitz", f"returned {L.shape[0]} constants for {len(blocks)} blocks "
                    "(the block solver indexes it by block)", blocks="group" if "groups" in spec else "feature")
            else:
                true = np.array([lam_max(Xd[:, b].T @ (hmax[:, None] * Xd[:, b])) for b in blocks])
                for k in range(len(blocks)):
                    if not (L[k] >= true[k] * (1 - 1e-12) and L[k] <= true[k] * (1 + 1e-9) + 1e-300):
                        bad("not-the-documented-bound", "get_lipschitz",
                            f"block {k}: L={L[k]!r}, sup-curvature lambda_max(X_B^T diag(h) X_B)={true[k]!r}")
                        break
                # a `lipschitz` attribute filled by initialize() is the same constant by another door (LogisticGroup)
                try:
                    La = np.asarray(df.lipschitz, float)
                except Exception:  # noqa -- no such attribute for this datafit
                    La = None
                if La is not None and La.shape == (len(blocks),):
                    for k in range(len(blocks)):
                        if not (La[k] >= true[k] * (1 - 1e-12) and La[k] <= true[k] * (1 + 1e-9) + 1e-300):
                            bad("not-the-documented-bound", "lipschitz(attribute)",
                                f"block {k}: attribute set by initialize() = {La[k]!r}, sup-curvature = {true[k]!r}")
                            break
                # LogisticGroup only inherits Logistic's feature-wise *_sparse methods; GroupBCD refuses it on
                # CSC input (no gradient_g_sparse), so its get_lipschitz_sparse is never a group constant: not claimed.
                if hasattr(df, "get_lipschitz_sparse") and nm != "LogisticGroup":
                    Ls = call("get_lipschitz_sparse", lambda: np.asarray(df.get_lipschitz_sparse(*sp, y), float))
                    if Ls is not None and Ls.shape != (len(blocks),):
                        bad("shape", "get_lipschitz_sparse", f"returned {Ls.shape} constants for {len(blocks)} blocks",
                            blocks="group" if "groups" in spec else "feature")
                    elif Ls is not None:
                        exact = "groups" not in spec
                        for k in range(len(blocks)):
                            lo = true[k] * ((1 - 1e-12) if exact else .95)
                            if not exact:       # power method: may rest on the second eigenvalue of a clustered block
                                evb = np.sort(np.linalg.eigvalsh(Xd[:, blocks[k]].T @ (hmax[:, None] * Xd[:, blocks[k]])))[::-1]
                                if len(evb) > 1 and evb[0] > 0:
                                    lo = true[k] * min(.95, max(float(evb[1] / evb[0]) * (1 - 1e-6), 0.))
                            if not (lo - 1e-300 <= Ls[k] <= true[k] * (1 + 1e-9) + 1e-300):
                                bad("sparse-constant-off", "get_lipschitz_sparse",
                                    f"block {k}: sparse L={Ls[k]!r} vs true {true[k]!r}", direction="above" if Ls[k] > true[k] else "below")
                                break

    # ---- global constant
    if hasattr(df, "get_global_lipschitz"):
        G = call("get_global_lipschitz", lambda: float(df.get_global_lipschitz(Xd, y)))
        if nm == "Cox":
            s = y[:, 1]
            true = s.sum() * np.linalg.norm(Xd, 2) ** 2 / nn      # documented bound
            eta = Xd @ np.array(case["w"])
            eta = eta * min(1., 6. / max(np.abs(eta).max(), 1e-300))
            Ht = R.Cox(spec["use_efron"]).hess_full(y, eta)
            need = lam_max(Xd.T @ Ht @ Xd)
        else:
            true = lam_max(Xd.T @ (hmax[:, None] * Xd))
            need = true
        if G is not None:
            if not (G >= need * (1 - 1e-9) - 1e-300):
                bad("global-constant-below-curvature", "get_global_lipschitz", f"L={G!r} < lambda_max(X^T diag(h) X)={need!r}")
            elif not (G <= true * (1 + 1e-9) + 1e-300):
                bad("not-the-documented-bound", "get_global_lipschitz", f"L={G!r} vs documented {true!r}")
        if hasattr(df, "get_global_lipschitz_sparse") and Xs.nnz > 0:
            Gs = call("get_global_lipschitz_sparse", lambda: float(df.get_global_lipschitz_sparse(*sp, y)))
            # power method, relative-change stopping rule, 100 iterations: from an unlucky start it can rest on the
            # SECOND eigenvalue when the two leading ones are close (observed once in 1e5 cases: ratio = lambda_2 /
            # lambda_1 = 0.911).  "Up to the power-method accuracy" therefore means >= min(0.95, lambda_2 / lambda_1).
            if nm == "Cox":
                ev = np.sort(np.linalg.eigvalsh(Xd.T @ Xd))[::-1]
            else:
                ev = np.sort(np.linalg.eigvalsh(Xd.T @ (hmax[:, None] * Xd)))[::-1]
            gap = float(ev[1] / ev[0]) * (1 - 1e-6) if len(ev) > 1 and ev[0] > 0 else 1.
            low = min(.95, max(gap, 0.))
            if Gs is not None and not (true * low - 1e-300 <= Gs <= true * (1 + 1e-9) + 1e-300):
                bad("sparse-constant-off", "get_global_lipschitz_sparse", f"sparse L={Gs!r} vs true {true!r} (ratio {Gs / true if true else float('nan'):.4g})",
                    direction="above" if Gs > true else "below")

    # ---- raw_hessian
    if hasattr(df, "raw_hessian") and nm != "QuadraticSVC":
        eta = Xd @ np.array(case["w"]) if nm != "QuadraticMultiTask" else None
        if eta is not None:
            lim = 6. if nm in ("Poisson", "Gamma", "Cox") else 30.
            eta = eta * min(1., lim / max(np.abs(eta).max(), 1e-300))
            if nm == "SqrtQuadratic" and np.linalg.norm(y - eta) <= 2e-2 * np.linalg.norm(y):
                return result(viol, False, classes + ["small-residual(out of domain)"])
            H = call("raw_hessian", lambda: np.asarray(df.raw_hessian(y, eta), float))
            if H is not None:
                if hasattr(loss, "hess_full"):
                    Ht = loss.hess_full(y, eta)
                    gap = np.linalg.eigvalsh(np.diag(H) - (Ht + Ht.T) / 2)[0]
                    if not gap >= -1e-9 * max(1., np.abs(Ht).max()):
                        bad("hessian-bound-violated", "raw_hessian", f"diag(raw_hessian) - H has eigenvalue {gap!r}")
                else:
                    Ht = loss.hess(y, eta)
                    err = np.abs(H - Ht) / (np.abs(Ht) + 1e-300)
                    if H.shape != Ht.shape or not np.all(np.isfinite(H)) or err.max() > 1e-9:
                        bad("hessian-mismatch", "raw_hessian", f"got {H.tolist()}, d2f/deta2 = {Ht.tolist()}")
            if nm in ("Logistic", "LogisticGroup") and np.abs(eta).max() > 0:
                # bounded function of the predictor: finite (and equal to sigma(z) sigma(-z), which underflows to 0)
                # however saturated the predictor is -- iterates of an unbounded (separable) problem get there
                for big in (800., 5000.):
                    eb = eta * (big / np.abs(eta).max())
                    Hb = call("raw_hessian", lambda: np.asarray(df.raw_hessian(y, eb), float))
                    if Hb is None:
                        break
                    Hr = loss.hess(y, eb)
                    if not np.all(np.isfinite(Hb)) or np.max(np.abs(Hb - Hr) - 1e-9 * np.abs(Hr)) > 1e-300:
                        bad("hessian-mismatch", "raw_hessian", f"saturated predictor (max |eta| = {big:g}): got {Hb.tolist()[:4]}, d2f/deta2 = {Hr.tolist()[:4]}")
                        break
                classes.append("saturated-predictor")
    # non-trivial: two non-orthogonal columns
    Gm = Xd.T @ Xd
    off = Gm - np.diag(np.diag(Gm))
    nontrivial = bool(np.any(np.abs(off) > 0))
    return result(viol, nontrivial, classes)
