"""C07 -- proximal operators return a global minimiser of u -> 0.5||u-x||^2 + s*pen(u)."""
import math
import os

import numpy as np
from hypothesis import strategies as st

from .. import gen, refmath as R
from ..common import Viol, result, bootstrap
from ..compose import make_penalty, compiled, SCALAR_PENALTIES

PROPERTY = "C07"
RULE = ("one case = (penalty hyper-parameters, step s inside the admissible range, input x or block x); "
        "x drawn at/around every documented threshold (exact, +-1ulp, +-1e-9, +-1e-3, +-10%), at 0, or "
        "generic over 6 decades. Oracle: independent global minimum of the prox objective (refmath grid+"
        "refinement; block: radial search + closed forms + probes); check obj(prox_impl(x)) <= min + tol, "
        "output finite and feasible. Non-trivial: x within 10% of a threshold, or the minimiser is neither "
        "0 nor x. Distinct = SHA-1 of the canonical case JSON.")
ASSUMPTIONS = ["a returned point within 1e-12*(scale of x and hyper-parameters) of a global minimiser is accepted "
               "(round-off of the closed forms; found necessary for log-sum at x = threshold + 1ulp)",
               "MCP steps satisfy s*weight < gamma and SCAD steps s < gamma-1 (admissible range of the property)",
               "refmath.prox_scalar_min is a sound lower envelope (self-tested against brute force)"]

BLOCK = ["WeightedGroupL2", "WeightedGroupL2+", "WeightedL1GroupL2", "L2_1", "L2_05",
         "BlockMCPenalty", "BlockSCAD", "SLOPE", "L0_5.prox_vec"]
# prox_funcs.BST_vec is not the prox of any penalty class (unused helper that numba cannot even type:
# norm(axis=1)); it is outside the property's "for every penalty" domain and is not claimed.


def shards(tier):
    n_s, n_b = (1500, 800) if tier == "quick" else (40000, 15000)
    out = [dict(id=f"scalar-{p}", kind="scalar", pen=p, n=n_s) for p in SCALAR_PENALTIES]
    out += [dict(id=f"block-{p}", kind="block", pen=p, n=n_b) for p in BLOCK]
    return out


# ---------------------------------------------------------------------------------------------
def thresholds(spec, step, j):
    n = spec["name"]
    a = spec.get("alpha", 1.)
    wt = spec["weights"][j] if "weights" in spec else 1.
    if n in ("L1", "WeightedL1"):
        return [a * step * wt]
    if n == "L1_plus_L2":
        return [a * spec["l1_ratio"] * step]
    if n in ("MCPenalty", "WeightedMCPenalty"):
        return [a * step * wt, a * spec["gamma"]]
    if n == "SCAD":
        return [a * step, a * (1 + step), a * spec["gamma"]]
    if n == "IndicatorBox":
        return [a]
    if n == "L0_5":
        return [1.5 * (a * step) ** (2 / 3)]
    if n == "L2_3":
        return [2 * (2 / 3 * a * step) ** .75]
    if n == "LogSumPenalty":
        e = spec["eps"]
        t = [a * step / e]
        if 2 * math.sqrt(a * step) - e > 0:
            t.append(2 * math.sqrt(a * step) - e)
        return t
    return []


@st.composite
def scalar_spec(draw, name, p=3):
    spec = dict(name=name)
    if name != "PositiveConstraint":
        spec["alpha"] = draw(gen.pos_float(-2, 1))
    if name in ("WeightedL1", "WeightedMCPenalty"):
        spec["weights"] = draw(gen.weights(p, allow_all_zero=True))
    if name in ("L1", "WeightedL1", "L1_plus_L2", "MCPenalty", "WeightedMCPenalty"):
        spec["positive"] = draw(st.booleans())
    if name == "L1_plus_L2":
        spec["l1_ratio"] = draw(st.sampled_from([0., 1., .5, .1, .9, .01]))
    if name in ("MCPenalty", "WeightedMCPenalty"):
        spec["gamma"] = draw(gen.pos_float(-1, 1))
    if name == "SCAD":
        spec["gamma"] = 1. + draw(gen.pos_float(-1, 1))
    if name == "LogSumPenalty":
        if draw(st.booleans()):
            spec["eps"] = draw(gen.pos_float(-2, 1))
        else:
            spec["eps"] = None   # filled from step: sqrt(alpha*step) within 1e-6 of eps
    return spec


@st.composite
def scalar_case(draw, name):
    p = 3
    spec = draw(scalar_spec(name, p))
    j = draw(st.integers(0, p - 1))
    step = draw(gen.pos_float(-3, 2))
    # extreme scales: solvers call the prox with step = 1/lipschitz, which for badly scaled features is
    # many decades away from 1 (alpha*step ~ 1e15 reached by the C01 generators)
    extreme = name != "PositiveConstraint" and draw(st.integers(0, 5)) == 0
    xscale = 1.
    if extreme:
        k = draw(st.integers(3, 18)) * draw(st.sampled_from([1, 1, -1]))
        if draw(st.booleans()) or name in ("MCPenalty", "WeightedMCPenalty", "SCAD"):
            spec["alpha"] = float(spec["alpha"] * 10. ** k)
        else:
            step = float(step * 10. ** k)
        xscale = draw(st.sampled_from([1., 10. ** k, 10. ** (k / 2)]))
    if name in ("MCPenalty", "WeightedMCPenalty"):
        wt = spec["weights"][j] if "weights" in spec else 1.
        lim = spec["gamma"] / wt if wt > 0 else math.inf
        if step >= lim:
            step = lim * draw(st.sampled_from([.05, .5, .9, .99]))
    if name == "SCAD":
        lim = spec["gamma"] - 1.
        if step >= lim:
            step = lim * draw(st.sampled_from([.05, .5, .9, .99]))
    if name == "LogSumPenalty" and spec["eps"] is None:
        spec["eps"] = math.sqrt(spec["alpha"] * step) * (1 + draw(st.sampled_from([0., 1e-6, -1e-6, 1e-3, -1e-3, .3])))
    thr = [t for t in thresholds(spec, step, j) if t > 0 and math.isfinite(t)]
    kind = draw(st.integers(0, 9))
    if kind == 0:
        x = 0.
    elif kind <= 5 and thr:
        t = draw(st.sampled_from(thr))
        x = draw(gen.near(t))
        if draw(st.booleans()):
            x = -x
    else:
        x = float(draw(gen.real(-3, 3, zero=0.)) * xscale)
    case = dict(kind="scalar", pen=spec, j=j, step=step, x=x)
    if extreme:
        case["extreme"] = True
    return case


@st.composite
def block_case(draw, name):
    d = draw(st.integers(1, 4))
    alpha = draw(gen.pos_float(-2, 1))
    step = draw(gen.pos_float(-2, 1))
    zero_x = draw(st.integers(0, 9)) == 0
    x = [0.] * d if zero_x else draw(st.lists(gen.real(-2, 1, zero=.2), min_size=d, max_size=d))
    case = dict(kind="block", which=name, step=step, x=x)
    if name != "SLOPE" and draw(st.integers(0, 7)) == 0:
        # extreme scales (see scalar_case); alpha carries the factor so that the MCP/SCAD step range holds
        k = draw(st.integers(3, 18)) * draw(st.sampled_from([1, 1, -1]))
        alpha = float(alpha * 10. ** k)
        xs = draw(st.sampled_from([1., 10. ** k, 10. ** (k / 2)]))
        case["x"] = x = [float(v * xs) for v in x]
        case["extreme"] = True
    if name in ("WeightedGroupL2", "WeightedGroupL2+"):
        # one group of interest (index 1) among three, non-contiguous indices
        groups = [[0], list(range(2, 2 + d)), [1]]
        wts = draw(gen.weights(3, allow_all_zero=True))
        case["pen"] = dict(name="WeightedGroupL2", alpha=alpha, weights=wts, groups=groups,
                           n_features=d + 2, positive=name.endswith("+"))
        case["g"] = 1
        t = alpha * step * wts[1]
    elif name == "WeightedL1GroupL2":
        groups = [[0], list(range(2, 2 + d)), [1]]
        wg = draw(gen.weights(3, allow_all_zero=True))
        wf = draw(gen.weights(d + 2, allow_all_zero=True))
        case["pen"] = dict(name="WeightedL1GroupL2", alpha=alpha, weights_groups=wg, weights_features=wf,
                           groups=groups, n_features=d + 2)
        case["g"] = 1
        t = alpha * step * wg[1]
    elif name in ("L2_1", "L2_05"):
        case["pen"] = dict(name=name, alpha=alpha)
        t = alpha * step if name == "L2_1" else 1.5 * (alpha * step) ** (2 / 3)
    elif name in ("BlockMCPenalty", "BlockSCAD"):
        gamma = draw(gen.pos_float(-1, 1)) + (1. if name == "BlockSCAD" else 0.)
        lim = gamma if name == "BlockMCPenalty" else gamma - 1.
        if step >= lim:
            case["step"] = step = lim * draw(st.sampled_from([.05, .5, .9, .99]))
        case["pen"] = dict(name=name, alpha=alpha, gamma=gamma)
        t = alpha * step
    elif name == "SLOPE":
        al = sorted(draw(st.lists(gen.pos_float(-2, 0), min_size=d, max_size=d)), reverse=True)
        if draw(st.booleans()):
            al = [al[0]] * d
        case["pen"] = dict(name="SLOPE", alphas=al)
        t = al[0] * step
    elif name == "L0_5.prox_vec":
        case["pen"] = dict(name="L0_5", alpha=alpha)
        t = 1.5 * (alpha * step) ** (2 / 3)
    elif name == "BST_vec":
        case["level"] = alpha
        case["grp_size"] = draw(st.sampled_from([1, 2]))
        case["x"] = x = (x * 2)[:2 * case["grp_size"]] if len(x) * 2 >= 2 * case["grp_size"] else [1., 0., 0., 2.][:2 * case["grp_size"]]
        t = alpha
    # optionally rescale x so that its norm sits at the threshold
    if not zero_x and t > 0 and draw(st.booleans()):
        nx = float(np.linalg.norm(case["x"]))
        if nx > 0:
            tgt = draw(gen.near(t))
            case["x"] = [float(v * tgt / nx) for v in case["x"]]
            case["at_threshold"] = True
    return case


def strategy(shard):
    return scalar_case(shard["pen"]) if shard["kind"] == "scalar" else block_case(shard["pen"])


# ---------------------------------------------------------------------------------------------
_cache = {}


def _pen(spec):
    from ..common import canon
    k = canon(spec)
    if k not in _cache:
        if len(_cache) > 2000:
            _cache.clear()
        skp, rp = make_penalty(spec)
        _cache[k] = (compiled(skp), rp)
    return _cache[k]


def impl_prox(case):
    """the call under test, and nothing else (runs in the watchdog helper process)."""
    bootstrap()
    s = case["step"]
    if case["kind"] == "scalar":
        return float(_pen(case["pen"])[0].prox_1d(case["x"], s, case["j"]))
    which = case["which"]
    x = np.array(case["x"], float)
    if which == "BST_vec":
        from skglm.utils import prox_funcs
        return np.asarray(prox_funcs.BST_vec(x, case["level"], case["grp_size"]), float).tolist()
    skp = _pen(case["pen"])[0]
    if which in ("WeightedGroupL2", "WeightedGroupL2+", "WeightedL1GroupL2"):
        out = skp.prox_1group(x, s, case["g"])
    elif which in ("L2_1", "L2_05", "BlockMCPenalty", "BlockSCAD"):
        out = skp.prox_1feat(x, s, 0)
    else:
        out = skp.prox_vec(x, s)
    return np.asarray(out, float).tolist()


_wd = None


def guarded_prox(case):
    """("ok", value) | ("exc", type, msg) | ("timeout", seconds) -- see pbt.watchdog."""
    global _wd
    if os.environ.get("VERIF_WATCHDOG", "1") == "0":
        try:
            return ("ok", impl_prox(case))
        except Exception as e:  # noqa
            return ("exc", type(e).__name__, repr(e))
    if _wd is None:
        from ..watchdog import Watchdog
        _wd = Watchdog("pbt.checks.c07", "impl_prox")
    return _wd.call(case, warmup=benign(case))


def benign(case):
    """same compiled signature, harmless numbers (watchdog warm-up: pays the compilation)."""
    b = to_plain(case)
    b.pop("extreme", None)
    b["step"] = .5
    b["x"] = .7 if case["kind"] == "scalar" else [.7] * len(case["x"])
    if "level" in b:
        b["level"] = 1.
    pen = b.get("pen")
    if pen:
        for k, v in dict(alpha=1., gamma=3., eps=1., l1_ratio=.5).items():
            if k in pen:
                pen[k] = v
        for k in ("weights", "alphas", "weights_features", "weights_groups"):
            if k in pen:
                pen[k] = [1.] * len(pen[k])
    return b


def to_plain(case):
    import json
    return json.loads(json.dumps(case))


def _no_return(sig, case, secs, classes):
    return result([Viol(dict(sig, kind="no-return"),
                        f"prox call did not return within {secs:.0f}s (normal cost: microseconds): "
                        f"{ {k: v for k, v in case.items()} }")], True, classes + ["no-return"])


def check_case(case):
    bootstrap()
    if case["kind"] == "scalar":
        return check_scalar(case)
    return check_block(case)


def check_scalar(case):
    spec, j, s, x = case["pen"], case["j"], case["step"], case["x"]
    name = spec["name"]
    skp, rp = _pen(spec)
    sig = dict(site="prox_1d", penalty=name)
    thr = [t for t in thresholds(spec, s, j) if t > 0]
    near = any(abs(abs(x) - t) <= .1 * t for t in thr)
    classes = [name, "x=0" if x == 0 else ("near-threshold" if near else "generic")]
    if case.get("extreme"):
        classes.append("extreme-scale")
    got = guarded_prox(case)
    if got[0] == "timeout":
        return _no_return(sig, case, got[1], classes)
    if got[0] == "exc":
        return result([Viol(dict(sig, kind="exception", exc=got[1]), f"{name}.prox_1d({x}, {s}, {j}) raised {got[2]}")], True)
    u = float(got[1])
    if not math.isfinite(u):
        return result([Viol(dict(sig, kind="non-finite", zero_input=(x == 0)),
                            f"{name}.prox_1d(x={x!r}, step={s!r}, j={j}) = {u} (params {spec})", out=u)], True, classes)
    viol = []
    if not math.isfinite(rp.phi(u, j)):
        viol.append(Viol(dict(sig, kind="infeasible"), f"{name}.prox_1d(x={x!r}, step={s!r}) = {u!r} is infeasible", out=u))
        return result(viol, True, classes)
    mv, ua = R.prox_scalar_min(rp, j, x, s)
    obj = R.prox_obj_scalar(rp, j, u, x, s)
    tol = 1e-9 * (.5 * x * x + abs(mv)) + 1e-300
    if obj > mv + tol:
        # floating-point representation of the minimiser: closed forms such as (x-eps)/2 + sqrt(...)
        # cancel to ~eps_mach * (scale of the hyper-parameters); accept a point within that distance.
        scale = max([abs(x)] + [abs(b) for b in rp.breakpoints(j)] + [spec.get("eps", 0.) or 0.])
        dlt = 1e-12 * scale
        near_pts = [u - dlt, u + dlt] + ([0.] if abs(u) <= dlt else []) + ([x] if abs(u - x) <= dlt else [])
        obj = min([obj] + [R.prox_obj_scalar(rp, j, v, x, s) for v in near_pts])
        if abs(u - ua) <= dlt:      # within the stated distance of the oracle's own minimiser
            obj = min(obj, mv)
    if obj > mv + tol:
        branch = None
        if name == "LogSumPenalty":
            branch = "sqrt(alpha*s)<=eps" if math.sqrt(spec["alpha"] * s) <= spec["eps"] else "sqrt(alpha*s)>eps"
        viol.append(Viol(dict(sig, kind="not-a-minimiser", returned_zero=(u == 0.), branch=branch),
                         f"{name}.prox_1d(x={x!r}, step={s!r}, j={j}) = {u!r}: objective {obj!r} > oracle min {mv!r} at u={ua!r} (params {spec})",
                         out=u, obj=obj, oracle=mv, argmin=ua))
    nontrivial = near or (abs(ua) > 0 and abs(ua - x) > 1e-12 * max(1., abs(x)))
    return result(viol, nontrivial, classes, info=dict(max_gap=max(0., (obj - mv) / (tol / 1e-9 + 1e-300))))


def _probe_better(objf, u, base, scale):
    """deterministic local probes around u: coordinate and radial perturbations at several scales."""
    best = base
    arg = None
    d = len(u)
    for h in (1e-1, 1e-2, 1e-4, 1e-6):
        for k in range(d):
            for sgn in (1., -1.):
                v = u.copy()
                v[k] += sgn * h * scale
                o = objf(v)
                if o < best:
                    best, arg = o, v
        for f in (1 + h, 1 - h):
            o = objf(u * f)
            if o < best:
                best, arg = o, u * f
    return best, arg


def check_block(case):
    which, s = case["which"], case["step"]
    x = np.array(case["x"], float)
    classes = [which, "x=0" if not x.any() else ("at-threshold" if case.get("at_threshold") else "generic")]
    if case.get("extreme"):
        classes.append("extreme-scale")
    sig = dict(site="block-prox", penalty=which)
    extra = []
    if which == "BST_vec":
        lvl, gs = case["level"], case["grp_size"]

        def value_fn(u):
            return lvl * sum(np.linalg.norm(u[i:i + gs]) for i in range(0, len(u), gs))
        s = 1.
        extra = [np.concatenate([(max(0., 1 - lvl / np.linalg.norm(x[i:i + gs])) if np.linalg.norm(x[i:i + gs]) > 0 else 0.) * x[i:i + gs]
                                 for i in range(0, len(x), gs)])]
    else:
        skp, rp = _pen(case["pen"])
        if which in ("WeightedGroupL2", "WeightedGroupL2+"):
            g = case["g"]
            value_fn = lambda u: rp.block_value(u, g)  # noqa
        elif which == "WeightedL1GroupL2":
            g = case["g"]
            value_fn = lambda u: rp.block_value(u, g)  # noqa
            idx = rp.groups[g]
            stv = np.sign(x) * np.maximum(np.abs(x) - s * rp.alpha * rp.wf[idx], 0.)
            nr = np.linalg.norm(stv)
            t = s * rp.alpha * rp.wg[g]
            extra = [np.zeros_like(x) if nr <= t else (1 - t / nr) * stv]
        elif which in ("L2_1", "L2_05", "BlockMCPenalty", "BlockSCAD"):
            value_fn = lambda u: rp.psi(float(np.linalg.norm(u)), 0)  # noqa
        elif which == "SLOPE":
            al = np.array(case["pen"]["alphas"], float)
            value_fn = lambda u: R.slope_value(u, al)  # noqa
            from sklearn.isotonic import isotonic_regression
            order = np.argsort(-np.abs(x), kind="stable")
            iso = np.maximum(isotonic_regression(np.abs(x)[order] - s * al, increasing=False), 0.)
            ref = np.zeros_like(x)
            ref[order] = iso
            extra = [np.sign(x) * ref]
        elif which == "L0_5.prox_vec":
            value_fn = lambda u: float(sum(rp.phi(float(v), 0) for v in u))  # noqa
            extra = [np.array([R.prox_scalar_min(rp, 0, float(v), s)[1] for v in x])]
    got = guarded_prox(case)
    if got[0] == "timeout":
        return _no_return(sig, case, got[1], classes)
    if got[0] == "exc":
        return result([Viol(dict(sig, kind="exception", exc=got[1], zero_input=(not x.any())),
                            f"{which} prox on x={x.tolist()} step={s} raised {got[2]} (case {case.get('pen')})")], True, classes)
    u = np.asarray(got[1], float)
    if u.shape != x.shape or not np.all(np.isfinite(u)):
        return result([Viol(dict(sig, kind="non-finite", zero_input=(not x.any())),
                            f"{which} prox on x={x.tolist()} step={s} returned {u.tolist()} (case {case.get('pen')})")], True, classes)

    def objf(v):
        return .5 * float(((v - x) ** 2).sum()) + s * value_fn(v)
    obj = objf(u)
    viol = []
    if not math.isfinite(obj):
        viol.append(Viol(dict(sig, kind="infeasible"), f"{which} prox output {u.tolist()} infeasible for x={x.tolist()}"))
        return result(viol, True, classes)
    mv = R.prox_block_min(value_fn, x, s, extra=extra)
    scale = max(float(np.linalg.norm(x)), 1e-12)
    pv, parg = _probe_better(objf, u, min(mv, obj), scale)
    mv = min(mv, pv)
    tol = 1e-9 * (.5 * float(x @ x) + abs(mv)) + 1e-300
    if obj > mv + tol:
        viol.append(Viol(dict(sig, kind="not-a-minimiser"),
                         f"{which} prox(x={x.tolist()}, step={s!r}) = {u.tolist()}: objective {obj!r} > oracle {mv!r} (case {case.get('pen')})",
                         out=u, obj=obj, oracle=mv))
    nontrivial = bool(case.get("at_threshold")) or (u.any() and not np.allclose(u, x, rtol=1e-12, atol=0))
    return result(viol, nontrivial, classes)
