"""C20 -- compiled kernels stay inside their arrays: NUMBA_BOUNDSCHECK=1 twin run must succeed and agree."""
import atexit
import math
import multiprocessing as mp
import os

import numpy as np
from hypothesis import strategies as st

from .. import gen, problems as P
from ..common import Viol, result, bootstrap
from . import c01

PROPERTY = "C20"
RULE = ("one case = an accepted composition (the C01 / C13 compositions: all solvers incl. FISTA and PDCD_WS) with "
        "generated data and knobs, with shapes that move the last feature / group / sample / stored non-zero to array "
        "ends: random non-contiguous group partitions (the last group often holds feature p-1), fit_intercept on and "
        "off, weight arrays of exact length, last CSC column empty or full, p0 >= p, small outer budgets. Every case "
        "is executed twice: in the normal worker and in a twin process started with NUMBA_BOUNDSCHECK=1 (numba's "
        "switch, set before numba is imported). Oracle: the checked run raises no IndexError / shape error and "
        "returns the same coefficients, history and stop_crit as the unchecked run (up to floating-point reassociation: "
        "rtol 1e-7; both runs see the same seeded numba RNG). Non-trivial: the case exercises an end-of-array index (last column in "
        "the working set or support, last group contains the last feature, or last CSC column empty).")
ASSUMPTIONS = ["the monitor is numba's own bounds checking; property-based testing supplies the inputs and the equality oracle",
               "exceptions that the unchecked run raises as well are C13's business and are not judged here"]

COMPS = c01.comps("thorough")
EXTRA = [dict(kind="scalar", solver="FISTA", fam="Quadratic", pen="L1"), dict(kind="scalar", solver="FISTA", fam="Logistic", pen="L1_plus_L2"),
         dict(kind="scalar", solver="FISTA", fam="Quadratic", pen="SLOPE"),
         dict(kind="scalar", solver="PDCD_WS", fam="Pinball", pen="L1"), dict(kind="scalar", solver="PDCD_WS", fam="SqrtQuadratic", pen="L1")]
QUICK_IDS = {"AndersonCD-Quadratic-L1", "AndersonCD-Quadratic-WeightedL1", "AndersonCD-Logistic-WeightedMCPenalty", "AndersonCD-Huber-L1_plus_L2",
             "AndersonCD-QuadraticSVC-IndicatorBox", "AndersonCD-WeightedQuadratic-SCAD", "ProxNewton-Logistic-WeightedL1", "ProxNewton-Poisson-L1",
             "ProxNewton-Cox-efron-L1_plus_L2", "ProxNewton-Quadratic-WeightedMCPenalty", "GramCD-Quadratic-WeightedL1",
             "GroupBCD-QuadraticGroup-WeightedGroupL2", "GroupBCD-LogisticGroup-WeightedGroupL2", "GroupProxNewton-LogisticGroup-WeightedGroupL2",
             "MultiTaskBCD-QuadraticMultiTask-L2_1", "MultiTaskBCD-QuadraticMultiTask-BlockSCAD", "LBFGS-Logistic-L2", "FISTA-Quadratic-L1",
             "FISTA-Quadratic-SLOPE", "PDCD_WS-Pinball-L1"}
SHARD_TIMEOUT = 3000


def shards(tier):
    n = 60 if tier == "quick" else 150
    out = []
    for c in COMPS + EXTRA:
        sid = f"{c['solver']}-{c['fam']}-{c['pen']}"
        if tier == "quick" and sid not in QUICK_IDS:
            continue
        out.append(dict(id=sid, n=n, cost=n * (3 if c["solver"] in ("GroupBCD", "MultiTaskBCD", "GroupProxNewton") else 1), **c))
    return out


@st.composite
def extra_case(draw, shard):
    m = draw(gen.matrix(n_min=3, n_max=12, p_min=1, p_max=8, degenerate=True))
    X = np.array(m["X"])
    n, p = X.shape
    case = dict(X=m["X"], flags=m["flags"], init=None)
    s, fam, pen = shard["solver"], shard["fam"], shard["pen"]
    if fam in ("Pinball", "SqrtQuadratic"):
        spec = dict(name=fam)
        if fam == "Pinball":
            spec["quantile"] = draw(st.sampled_from([.5, .2, .8]))
        case["datafit"] = spec
        case["y"] = [float(v + (-1) ** i * (i % 3 + 1)) for i, v in enumerate(draw(gen.planted_target(X)))]
        case["penalty"] = dict(name="L1", alpha=draw(gen.pos_float(-2, 0)))
        case["solver"] = dict(name="PDCD_WS", max_iter=draw(st.sampled_from([1, 3, 30])), max_epochs=draw(st.sampled_from([1, 10, 100])),
                              p0=draw(st.sampled_from([1, 3, 100])), tol=draw(gen.tols()))
        case["storage"] = "dense"
        return case
    case["datafit"], case["y"] = P.datafit_spec_and_target(draw, fam, X)
    if pen == "SLOPE":
        a = draw(gen.pos_float(-2, 0))
        case["penalty"] = dict(name="SLOPE", alphas=sorted([a * (1 + .3 * k) for k in range(p)], reverse=True))
        case["solver"] = dict(name="FISTA", max_iter=draw(st.sampled_from([1, 5, 100])), tol=draw(gen.tols()), opt_strategy="fixpoint")
    else:
        case["penalty"] = draw(P.scalar_penalty_spec(pen, case, p))
        case["solver"] = draw(P.solver_spec("FISTA"))
    case["storage"] = draw(st.sampled_from(["dense", "csc"]))
    return case


@st.composite
def edgy(draw, base):
    case = draw(base)
    X = np.array(case["X"], float)
    k = draw(st.integers(0, 3))
    if k == 0 and X.shape[1] >= 2 and not (case["datafit"] and case["datafit"]["name"] == "QuadraticSVC"):
        X[:, -1] = 0.                      # last CSC column empty
        case["X"] = X.tolist()
        case["flags"] = case.get("flags", []) + ["last-col-empty"]
    if "p0" in case["solver"] and draw(st.integers(0, 3)) == 0:
        case["solver"]["p0"] = draw(st.sampled_from([X.shape[1], X.shape[1] + 3, 100]))
    if "max_iter" in case["solver"] and draw(st.booleans()):
        case["solver"]["max_iter"] = draw(st.sampled_from([1, 2, 3]))
    return case


def strategy(shard):
    s = shard["solver"]
    if s in ("FISTA", "PDCD_WS"):
        return edgy(extra_case(shard))
    if shard["kind"] == "scalar":
        if s == "LBFGS":
            return edgy(c01.lbfgs_case(shard["fam"]))
        return edgy(P.scalar_case(s, shard["fam"], shard["pen"], sizes=(3, 12, 1, 8)))
    if shard["kind"] == "group":
        return edgy(P.group_case(s, shard["fam"], sizes=(3, 12, 4, 10)))
    return edgy(P.multitask_case(shard["pen"], sizes=(3, 12, 1, 8)))


# ---------------------------------------------------------------------------------------------
# the bounds-checked twin process
def _twin_main(conn, repo):
    os.environ["NUMBA_BOUNDSCHECK"] = "1"
    os.environ["VERIF_REPO"] = repo
    try:
        from ..common import bootstrap as bs
        bs()
        import numba  # noqa
        conn.send(("ready", os.environ.get("NUMBA_BOUNDSCHECK")))
        while True:
            case = conn.recv()
            if case is None:
                return
            out = P.run(case)
            if out.exc is not None:
                conn.send(("exc", type(out.exc).__name__, str(out.exc)[:300]))
            else:
                conn.send(("ok", np.asarray(out.w).tolist(), np.asarray(out.obj).tolist(), float(out.stop)))
    except EOFError:
        return


_twin = None


def twin():
    global _twin
    if _twin is None or not _twin[0].is_alive():
        ctx = mp.get_context("spawn")
        a, b = ctx.Pipe()
        old = os.environ.get("NUMBA_BOUNDSCHECK")
        os.environ["NUMBA_BOUNDSCHECK"] = "1"
        try:
            p = ctx.Process(target=_twin_main, args=(b, os.environ.get("VERIF_REPO", "/repo")), daemon=True)
            p.start()
        finally:
            if old is None:
                os.environ.pop("NUMBA_BOUNDSCHECK", None)
            else:
                os.environ["NUMBA_BOUNDSCHECK"] = old
        msg = a.recv()
        assert msg == ("ready", "1"), msg
        _twin = (p, a)
        atexit.register(lambda: p.kill())
    return _twin


def run_checked(case):
    global _twin
    p, conn = twin()
    conn.send(case)
    waited = 0.
    while not conn.poll(1.):
        waited += 1.
        if not p.is_alive():
            _twin = None
            return ("died", p.exitcode)
        if waited > 900:
            p.kill()
            _twin = None
            return ("timeout",)
    return conn.recv()


def check_case(case):
    bootstrap()
    s = case["solver"]
    name = s["name"]
    sig = dict(solver=name, datafit=(case["datafit"] or {}).get("name", "None"), penalty=case["penalty"]["name"], storage=case["storage"],
               fit_intercept=bool(s.get("fit_intercept", False)), unsorted_groups=P.unsorted_groups(case))
    classes = [name]
    out = P.run(case)
    chk = run_checked(case)
    viol = []
    X = np.array(case["X"], float)
    p = X.shape[1]
    edge = "last-col-empty" in case.get("flags", [])
    g = case["penalty"].get("groups")
    if g and (p - 1) in g[-1]:
        edge = True
    if chk[0] == "died":
        viol.append(Viol(dict(sig, kind="twin-died"), f"{name}: the bounds-checked twin process died (exit {chk[1]})"))
    elif chk[0] == "timeout":
        return result([], False, classes + ["twin-timeout(inconclusive)"])
    elif chk[0] == "exc":
        if out.exc is not None and type(out.exc).__name__ == chk[1]:
            return result([], False, classes + [f"same-exception:{chk[1]}(C13)"])
        kind = "out-of-bounds" if chk[1] in ("IndexError",) else "checked-run-exception"
        viol.append(Viol(dict(sig, kind=kind, exc=chk[1]),
                         f"{name} x {sig['datafit']} x {sig['penalty']} [{case['storage']}, fit_intercept={sig['fit_intercept']}]: with NUMBA_BOUNDSCHECK=1 the run raises "
                         f"{chk[1]}: {chk[2][:160]!r} while the unchecked run " + ("returns normally" if out.exc is None else f"raises {type(out.exc).__name__}")))
    else:
        if out.exc is not None:
            viol.append(Viol(dict(sig, kind="unchecked-run-exception", exc=type(out.exc).__name__),
                             f"{name}: the unchecked run raises {type(out.exc).__name__} but the bounds-checked run returns normally"))
        else:
            w1, w2 = np.asarray(out.w, float), np.asarray(chk[1], float)
            o1, o2 = np.asarray(out.obj, float), np.asarray(chk[2], float)
            # bounds checking changes numba's code generation (no loop vectorisation / fusion), hence the summation
            # order: equality is up to floating-point reassociation amplified along the iterations, not bitwise
            ws = float(np.max(np.abs(w1))) if w1.size and np.all(np.isfinite(w1)) else 0.
            same = w1.shape == w2.shape and o1.shape == o2.shape and np.allclose(w1, w2, rtol=1e-7, atol=1e-9 * (1 + ws), equal_nan=True) \
                and np.allclose(o1, o2, rtol=1e-7, atol=1e-12, equal_nan=True) \
                and (out.stop == chk[3] or math.isclose(out.stop, chk[3], rel_tol=1e-5, abs_tol=1e-12) or (math.isnan(out.stop) and math.isnan(chk[3])))
            nonconvex = case["penalty"]["name"] in ("MCPenalty", "WeightedMCPenalty", "SCAD", "L0_5", "L2_3", "LogSumPenalty", "L2_05", "BlockMCPenalty", "BlockSCAD")
            if not same and nonconvex:
                # near the edge of the well-posed step range a non-convex prox amplifies 1-ulp reassociation differences
                # by 1/(1 - s/gamma) per inner iteration (observed: x 11 over 20 iterations): equality is not claimed
                classes.append("nonconvex-divergence(not judged)")
            elif not same:
                # Both modes are deterministic; they differ in code generation only, and a 1-ulp difference can flip an
                # inner `stop_crit_in <= tol_in` break or a tie between equal working-set scores (observed on the
                # unchanged tree: two symmetric features returned swapped).  With bounds checking on, no read outside
                # an array can go unnoticed (it raises), so what remains to be judged is "the same result up to solver
                # tolerance": two runs that both claim convergence must agree within the theorem-backed margins.
                tol = s["tol"]
                both = (out.stop < tol and chk[3] < tol) if name == "FISTA" else (out.stop <= tol and chk[3] <= tol)
                if both and np.all(np.isfinite(w1)) and np.all(np.isfinite(w2)) and w1.shape == w2.shape:
                    from .. import metamorph as M
                    sub = M.compare(case, w1, w2, tol, f"{name}: bounds-checked vs unchecked run", dict(sig, kind="result-depends-on-bounds-checking"), Viol, factor=4.)
                    viol += sub
                    classes.append("tolerance-level-divergence" if not sub else "divergence-beyond-tolerance")
                elif w1.shape != w2.shape:
                    viol.append(Viol(dict(sig, kind="result-depends-on-bounds-checking"),
                                     f"{name}: checked and unchecked runs differ in shape: w {w1.shape} vs {w2.shape}"))
                else:
                    classes.append("budget-exhausted-trajectory-divergence(not judged)")
            nz = np.flatnonzero(np.abs(w1[:p]).reshape(p, -1).sum(1)) if w1.shape[0] >= p else []
            if len(nz) and nz[-1] == p - 1:
                edge = True
    return result(viol, edge, classes + (["edge"] if edge else []))
