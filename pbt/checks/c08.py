"""C08 -- subdiff_distance is the distance of -grad to the regular subdifferential; agrees with the prox."""
import math

import numpy as np
from hypothesis import strategies as st

from .. import gen, refmath as R
from ..common import Viol, result, bootstrap, canon
from ..compose import make_penalty, compiled, SCALAR_PENALTIES, CONVEX_SCALAR

PROPERTY = "C08"
RULE = ("one case = (penalty hyper-parameters incl. zero weights / positivity / groups, point w with coordinates "
        "drawn from the kinks and region boundaries {0, +-alpha, +-alpha*gamma, C} (+-1ulp, +-1e-9) or generic, "
        "gradient generic or constructed as minus a subgradient, working set = arbitrary ordered subset). Oracles: "
        "(a) score == refmath distance to the regular subdifferential on feasible points, (b) +inf on points "
        "violating positivity, (c) w = prox_impl(x, s), g = (x-w)/s => score ~ 0, (d) convex: g = -v, v in dpen(w) "
        "=> score 0 and prox_impl(w - s g, s) == w, (e) value == refmath value, invariant on unpenalised "
        "coordinates, generalized_support contains the non-zeros, (f) dist_fix_point_cd/bcd == |w - prox(w - g/L)|. "
        "Non-trivial: some coordinate sits exactly on a kink, or the case is of type (c)/(d).")
ASSUMPTIONS = ["outside [0, C] the IndicatorBox score must be inf as for positivity (empty subdifferential; a finite score there lets a warm start from a larger C be returned as converged)",
               "regular (Frechet) subdifferential: whole line at 0 for L0_5 / L2_3 / L2_05"]

BLOCKS = ["WeightedGroupL2", "WeightedGroupL2+", "L2_1", "L2_05", "BlockMCPenalty", "BlockSCAD"]


def shards(tier):
    n_s, n_b = (1200, 900) if tier == "quick" else (25000, 15000)
    out = [dict(id=f"scalar-{p}", kind="scalar", pen=p, n=n_s) for p in SCALAR_PENALTIES]
    out += [dict(id=f"block-{p}", kind="block", pen=p, n=n_b) for p in BLOCKS]
    return out


def kinks(spec):
    n, a = spec["name"], spec.get("alpha", 1.)
    k = [0.]
    if n in ("MCPenalty", "WeightedMCPenalty"):
        k += [a * spec["gamma"]]
    if n == "SCAD":
        k += [a, a * spec["gamma"]]
    if n == "IndicatorBox":
        k += [a]
    return k


@st.composite
def coord(draw, spec):
    """a coefficient value biased to the kinks of the penalty."""
    ks = kinks(spec)
    kind = draw(st.integers(0, 9))
    if kind <= 2:
        v = 0.
    elif kind <= 5:
        t = draw(st.sampled_from(ks))
        v = t if t == 0 else draw(gen.near(t))
        if spec["name"] != "IndicatorBox" and draw(st.booleans()):
            v = -v
    else:
        v = draw(gen.real(-3, 2, zero=0.))
    if spec["name"] == "IndicatorBox" and not draw(st.sampled_from([False, False, False, True])):
        v = min(max(v, 0.), spec["alpha"])     # mostly inside the box; 1 in 4 coordinates may leave it (value-only judgement)
    return v


@st.composite
def scalar_case(draw, name):
    from .c07 import scalar_spec
    p = 4
    spec = draw(scalar_spec(name, p))
    if name == "LogSumPenalty" and spec.get("eps") is None:
        spec["eps"] = draw(gen.pos_float(-2, 1))
    w = [draw(coord(spec)) for _ in range(p)]
    grad = [draw(gen.real(-3, 2)) for _ in range(p)]
    ws = draw(st.lists(st.integers(0, p - 1), min_size=1, max_size=p, unique=True))
    mode = draw(st.sampled_from(["a", "a", "c", "d"]))
    case = dict(kind="scalar", pen=spec, w=w, grad=grad, ws=ws, mode=mode)
    if mode == "c":
        case["x"] = [draw(gen.real(-3, 2)) for _ in range(p)]
        step = draw(gen.pos_float(-2, 1))
        if name in ("MCPenalty", "WeightedMCPenalty"):
            wmax = max(spec.get("weights", [1.])) or 1.
            lim = spec["gamma"] / wmax
            if step >= lim:
                step = lim * draw(st.sampled_from([.05, .5, .9]))
        if name == "SCAD" and step >= spec["gamma"] - 1:
            step = (spec["gamma"] - 1) * draw(st.sampled_from([.05, .5, .9]))
        case["step"] = step
    if mode == "d":
        case["t"] = [draw(gen.unit()) for _ in range(p)]
        case["step"] = draw(gen.pos_float(-2, 1))
    case["lips"] = [draw(st.sampled_from([0., 1., .5, 2., 10., .01])) for _ in range(p)]
    return case


@st.composite
def block_case(draw, name):
    alpha = draw(gen.pos_float(-2, 1))
    mode = draw(st.sampled_from(["a", "a", "c"]))
    if name.startswith("WeightedGroupL2"):
        p = draw(st.integers(2, 7))
        groups = draw(gen.partition(p, max_groups=4))
        ng = len(groups)
        spec = dict(name="WeightedGroupL2", alpha=alpha, weights=draw(gen.weights(ng, allow_all_zero=True)),
                    groups=groups, n_features=p, positive=name.endswith("+"))
        w = [draw(gen.real(-2, 1, zero=.3)) for _ in range(p)]
        if spec["positive"] and draw(st.integers(0, 3)) > 0:
            w = [abs(v) for v in w]
        for g in groups:   # whole zero groups are the kink
            if draw(st.integers(0, 2)) == 0:
                for j in g:
                    w[j] = 0.
        ws = draw(st.lists(st.integers(0, ng - 1), min_size=1, max_size=ng, unique=True))
        grad = [draw(gen.real(-2, 1)) for _ in range(sum(len(groups[g]) for g in ws))]
        case = dict(kind="block", which=name, pen=spec, w=w, grad=grad, ws=ws, mode=mode)
        case["lips"] = [draw(st.sampled_from([0., 1., .5, 2., 10.])) for _ in ws]
    else:
        p, T = draw(st.integers(1, 5)), draw(st.integers(1, 3))
        spec = dict(name=name, alpha=alpha)
        if name in ("BlockMCPenalty", "BlockSCAD"):
            spec["gamma"] = draw(gen.pos_float(-1, 1)) + (1. if name == "BlockSCAD" else 0.)
        W = [[draw(gen.real(-2, 1, zero=.2)) for _ in range(T)] for _ in range(p)]
        for j in range(p):
            k = draw(st.integers(0, 5))
            if k == 0:
                W[j] = [0.] * T
            elif k == 1 and any(W[j]):   # put the row norm on a kink
                ks = [alpha] + ([alpha * spec["gamma"]] if "gamma" in spec else [])
                t = draw(gen.near(draw(st.sampled_from(ks))))
                nr = math.sqrt(sum(v * v for v in W[j]))
                W[j] = [v * t / nr for v in W[j]]
        ws = draw(st.lists(st.integers(0, p - 1), min_size=1, max_size=p, unique=True))
        grad = [[draw(gen.real(-2, 1)) for _ in range(T)] for _ in ws]
        case = dict(kind="block", which=name, pen=spec, w=W, grad=grad, ws=ws, mode=mode)
        case["lips"] = [draw(st.sampled_from([0., 1., .5, 2., 10.])) for _ in ws]
    if mode == "c":
        step = draw(gen.pos_float(-2, 1))
        if name == "BlockMCPenalty" and step >= spec["gamma"]:
            step = spec["gamma"] * .5
        if name == "BlockSCAD" and step >= spec["gamma"] - 1:
            step = (spec["gamma"] - 1) * .5
        case["step"] = step
    return case


def strategy(shard):
    return scalar_case(shard["pen"]) if shard["kind"] == "scalar" else block_case(shard["pen"])


_cache = {}


def _pen(spec):
    k = canon(spec)
    if k not in _cache:
        if len(_cache) > 2000:
            _cache.clear()
        skp, rp = make_penalty(spec)
        _cache[k] = (compiled(skp), rp)
    return _cache[k]


def close(a, b, rel=1e-9, absol=1e-12):
    if math.isinf(a) or math.isinf(b):
        return a == b
    return abs(a - b) <= rel * max(abs(a), abs(b)) + absol


def check_case(case):
    bootstrap()
    return check_scalar(case) if case["kind"] == "scalar" else check_block(case)


def check_scalar(case):
    from skglm.solvers.common import dist_fix_point_cd
    spec = case["pen"]
    name = spec["name"]
    skp, rp = _pen(spec)
    w = np.array(case["w"], float)
    grad_full = np.array(case["grad"], float)
    ws = np.array(case["ws"], dtype=np.int64)
    p = len(w)
    mode = case["mode"]
    viol = []
    sig0 = dict(penalty=name)
    classes = [name, "mode-" + mode]
    scale = 1. + spec.get("alpha", 0.)
    if mode == "c":
        s = case["step"]
        x = np.array(case["x"], float)
        w = np.array([float(skp.prox_1d(float(x[j]), s, j)) for j in range(p)])
        if not np.all(np.isfinite(w)):
            return result([], False, classes + ["prox-nonfinite(C07)"])
        grad_full = (w - x) / s
    elif mode == "d" and rp.convex and rp.feasible(w):
        s = case["step"]
        v = np.zeros(p)
        for j in range(p):
            lo, hi = rp.lo_hi(float(w[j]), j)
            lo_c = lo if np.isfinite(lo) else (hi if np.isfinite(hi) else 0.) - 3.
            hi_c = hi if np.isfinite(hi) else (lo if np.isfinite(lo) else 0.) + 3.
            v[j] = lo_c + case["t"][j] * (hi_c - lo_c)
        grad_full = -v
    grad_ws = grad_full[ws]
    feasible = rp.feasible(w)
    try:
        got = np.asarray(skp.subdiff_distance(w, grad_ws, ws), float)
    except Exception as e:  # noqa
        return result([Viol(dict(sig0, kind="exception", site="subdiff_distance"), f"{name}.subdiff_distance raised {e!r}")], True, classes)
    on_kink = any(float(w[j]) in [k for k in kinks(spec)] + [-k for k in kinks(spec)] for j in ws)
    for idx, j in enumerate(ws):
        want = rp.sdist(w[j], grad_full[j], j)
        wj = float(w[j])
        if math.isinf(want):
            if not math.isinf(got[idx]):
                viol.append(Viol(dict(sig0, kind="finite-score-at-infeasible-point"),
                                 f"{name}.subdiff_distance at w_j={wj!r} (outside the constraint set: empty subdifferential) = {got[idx]!r}, expected inf; params {spec}"))
            continue
        tol_rel = 1e-9
        if mode == "c":
            # g = (x - w)/s carries the cancellation error of x - w
            # C07 accepts a prox output whose objective is within 1e-9 relative of the minimum, i.e. a point within
            # ~sqrt(2e-9)|x| of the minimiser (prox_2_3 really is that inaccurate for alpha*s << |x|^(4/3):
            # cancellation); (c) must not demand more of the prox than C07 does.
            absol = 1e-9 * scale + 5e-5 * (abs(case["x"][j]) + abs(wj)) / case["step"]
            if not (got[idx] <= absol and want <= absol):
                viol.append(Viol(dict(sig0, kind="prox-fixed-point-has-nonzero-score"),
                                 f"{name}: w=prox(x={case['x'][j]!r}, s={case['step']!r})={wj!r}, g=(w-x)/s, score={got[idx]!r} (ref {want!r}); params {spec}"))
            continue
        if not close(float(got[idx]), want, tol_rel, 1e-12 * scale):
            region = "zero" if wj == 0 else "nonzero"
            viol.append(Viol(dict(sig0, kind="score-mismatch", region=region),
                             f"{name}.subdiff_distance(w_j={wj!r}, grad_j={grad_full[j]!r}) = {got[idx]!r}, regular-subdifferential distance = {want!r}; params {spec}"))
    if mode == "d" and rp.convex and feasible:
        for idx, j in enumerate(ws):
            if got[idx] > 1e-12 * scale:
                viol.append(Viol(dict(sig0, kind="stationary-point-has-nonzero-score"),
                                 f"{name}: -g in dpen(w) but score={got[idx]!r} at w_j={w[j]!r}; params {spec}"))
            u = float(skp.prox_1d(float(w[j] - s * grad_full[j]), s, j))
            if abs(u - w[j]) > 1e-9 * (1 + abs(w[j]) + s * abs(grad_full[j])):
                viol.append(Viol(dict(sig0, kind="score-zero-but-not-prox-fixed-point"),
                                 f"{name}: stationary w_j={w[j]!r}, g={grad_full[j]!r} but prox(w - s g, s={s!r}) = {u!r}; params {spec}"))
    # (e') the value function carries the constraint: +inf wherever a configured positivity / box constraint is violated
    if not feasible:
        val = float(skp.value(w))
        if not math.isinf(val):
            viol.append(Viol(dict(sig0, kind="finite-value-at-infeasible-point"),
                             f"{name}.value({w.tolist()}) = {val!r} although the point violates the penalty's constraint (documented value: +inf); params {spec}"))
    # (e) value / is_penalized / generalized_support
    if feasible:
        val = float(skp.value(w))
        ref = rp.value(w)
        if not close(val, ref, 1e-9, 1e-300):
            viol.append(Viol(dict(sig0, kind="value-mismatch"), f"{name}.value({w.tolist()}) = {val!r}, documented formula = {ref!r}; params {spec}"))
        pen_mask = np.asarray(skp.is_penalized(p), bool)
        for j in range(p):
            if pen_mask[j] != rp.is_penalized(j):
                viol.append(Viol(dict(sig0, kind="is_penalized-mismatch"), f"{name}.is_penalized[{j}]={pen_mask[j]} but weight={rp.weight(j)}"))
            if not pen_mask[j]:
                w2 = w.copy()
                w2[j] = w2[j] + 1.5 if not rp.positive else abs(w2[j]) + 1.5
                if float(skp.value(w2)) != val:
                    viol.append(Viol(dict(sig0, kind="unpenalised-feature-changes-value"), f"{name}: changing unpenalised w[{j}] changes value"))
        gs = np.asarray(skp.generalized_support(w), bool)
        for j in range(p):
            inside = w[j] != 0 and not (name == "IndicatorBox" and w[j] == spec["alpha"])
            if inside and not gs[j]:
                viol.append(Viol(dict(sig0, kind="generalized_support-misses-nonzero"), f"{name}.generalized_support misses w[{j}]={w[j]!r}"))
    # (f) fixed-point residual used by ws_strategy="fixpoint"
    if feasible and mode != "c":
        lips = np.array(case["lips"], float)
        # keep the step 1/L inside the admissible range of the non-convex proxes (else L := 0, skipped)
        for j in range(p):
            if lips[j] > 0 and name in ("MCPenalty", "WeightedMCPenalty") and rp.weight(j) / lips[j] >= .99 * spec["gamma"]:
                lips[j] = 0.
            if lips[j] > 0 and name == "SCAD" and 1. / lips[j] >= .99 * (spec["gamma"] - 1):
                lips[j] = 0.
        d = np.asarray(dist_fix_point_cd(w, grad_ws, lips[ws], None, skp, ws), float)
        for idx, j in enumerate(ws):
            if lips[j] == 0:
                want = 0.
            else:
                st_ = 1. / lips[j]
                xj = w[j] - st_ * grad_full[j]
                if rp.convex:
                    want = abs(w[j] - R.prox_scalar_ref(rp, j, xj, st_))
                else:
                    want = None
                    u = float(skp.prox_1d(float(xj), st_, j))
                    want = abs(w[j] - u)
            if not close(float(d[idx]), want, 1e-9, 1e-12 * (scale + abs(w[j]))):
                viol.append(Viol(dict(sig0, kind="fixpoint-distance-mismatch"),
                                 f"dist_fix_point_cd[{idx}] = {d[idx]!r}, |w - prox(w - g/L)| = {want!r} (w_j={w[j]!r}, g={grad_full[j]!r}, L={lips[j]}); params {spec}"))
    nontrivial = on_kink or mode in ("c", "d")
    if on_kink:
        classes.append("on-kink")
    if not feasible:
        classes.append("infeasible-point")
    return result(viol, nontrivial, classes)


def check_block(case):
    from skglm.solvers.common import dist_fix_point_bcd
    from skglm.solvers import multitask_bcd
    which = case["which"]
    spec = case["pen"]
    skp, rp = _pen(spec)
    mode = case["mode"]
    ws = np.array(case["ws"], dtype=np.int64)
    viol = []
    sig0 = dict(penalty=which)
    classes = [which, "mode-" + mode]
    scale = 1. + spec["alpha"]
    if which.startswith("WeightedGroupL2"):
        w = np.array(case["w"], float)
        groups = rp.groups
        grad = np.array(case["grad"], float)
        if mode == "c":
            s = case["step"]
            ptr = 0
            x_all = w.copy()
            g_list = []
            for g in ws:
                idx = groups[g]
                x = x_all[idx] - grad[ptr:ptr + len(idx)]   # arbitrary input
                u = np.asarray(skp.prox_1group(x, s, int(g)), float)
                w[idx] = u
                g_list.append((u - x) / s)
                ptr += len(idx)
            grad = np.concatenate(g_list)
        got = np.asarray(skp.subdiff_distance(w, grad, ws), float)
        ptr = 0
        kink = False
        for k, g in enumerate(ws):
            idx = groups[g]
            gb = grad[ptr:ptr + len(idx)]
            ptr += len(idx)
            want = rp.block_sdist(w[idx], gb, int(g))
            kink = kink or not w[idx].any()
            if math.isinf(want):
                if not math.isinf(got[k]):
                    viol.append(Viol(dict(sig0, kind="finite-score-at-infeasible-point"),
                                     f"{which}: group {g} w_g={w[idx].tolist()} violates positivity, score={got[k]!r}"))
                continue
            if mode == "c":
                absol = 1e-9 * scale + 5e-5 * (np.abs(w[idx]).max() + np.abs(gb).max() * case["step"]) / case["step"]
                if not (got[k] <= absol):
                    viol.append(Viol(dict(sig0, kind="prox-fixed-point-has-nonzero-score"),
                                     f"{which}: w_g = prox(x) but score={got[k]!r} (ref {want!r}); w_g={w[idx].tolist()} spec={spec}"))
                continue
            if not close(float(got[k]), want, 1e-9, 1e-12 * scale):
                viol.append(Viol(dict(sig0, kind="score-mismatch", region="zero" if not w[idx].any() else "nonzero"),
                                 f"{which}.subdiff_distance group {g}: w_g={w[idx].tolist()}, grad_g={gb.tolist()} -> {got[k]!r}, reference {want!r}; spec={spec}"))
        if rp.value(w) < np.inf:
            val = float(skp.value(w))
            if not close(val, rp.value(w), 1e-12, 1e-300):
                viol.append(Viol(dict(sig0, kind="value-mismatch"), f"{which}.value={val!r} vs {rp.value(w)!r}"))
            gs = np.asarray(skp.generalized_support(w), bool)
            for g, idx in enumerate(groups):
                if w[idx].any() and not gs[g]:
                    viol.append(Viol(dict(sig0, kind="generalized_support-misses-nonzero"), f"group {g} missed"))
            if mode != "c":
                lips = np.array(case["lips"], float)
                d = np.asarray(dist_fix_point_bcd(w, grad, lips, None, skp, ws), float)
                ptr = 0
                for k, g in enumerate(ws):
                    idx = groups[g]
                    gb = grad[ptr:ptr + len(idx)]
                    ptr += len(idx)
                    if lips[k] == 0:
                        want = 0.
                    else:
                        a = spec["alpha"] * spec["weights"][g] / lips[k]
                        x = w[idx] - gb / lips[k]
                        xx = np.maximum(x, 0) if spec["positive"] else x
                        nr = np.linalg.norm(xx)
                        pr = np.zeros_like(x) if nr <= a else (1 - a / nr) * xx
                        want = float(np.linalg.norm(w[idx] - pr))
                    if not close(float(d[k]), want, 1e-9, 1e-12 * scale):
                        viol.append(Viol(dict(sig0, kind="fixpoint-distance-mismatch"),
                                         f"dist_fix_point_bcd[{k}]={d[k]!r} vs {want!r} (group {g}, L={lips[k]}) spec={spec}"))
        return result(viol, kink or mode == "c", classes + (["zero-group"] if kink else []))
    # row penalties
    W = np.array(case["w"], float)
    grad = np.array(case["grad"], float)
    if mode == "c":
        s = case["step"]
        for k, j in enumerate(ws):
            x = W[j] - grad[k]
            u = np.asarray(skp.prox_1feat(x, s, int(j)), float)
            if not np.all(np.isfinite(u)):
                return result([], False, classes + ["prox-nonfinite(C07)"])
            W[j] = u
            grad[k] = (u - x) / s
    got = np.asarray(skp.subdiff_distance(W, grad, ws), float)
    kink = False
    for k, j in enumerate(ws):
        want = rp.block_sdist(W[j], grad[k], int(j))
        nr = float(np.linalg.norm(W[j]))
        ks = [0., spec["alpha"]] + ([spec["alpha"] * spec["gamma"]] if "gamma" in spec else [])
        kink = kink or any(abs(nr - t) <= 1e-9 * max(t, 1e-300) for t in ks)
        if mode == "c":
            absol = 1e-9 * scale + 5e-5 * ((np.abs(W[j]).max() + np.abs(grad[k]).max() * case["step"]) / case["step"] + np.abs(grad[k]).max())
            if not got[k] <= absol:
                viol.append(Viol(dict(sig0, kind="prox-fixed-point-has-nonzero-score"),
                                 f"{which}: W_j=prox(x) but score={got[k]!r} (ref {want!r}) W_j={W[j].tolist()} spec={spec} step={case['step']}"))
            continue
        if not close(float(got[k]), want, 1e-9, 1e-12 * scale):
            viol.append(Viol(dict(sig0, kind="score-mismatch", region="zero" if nr == 0 else "nonzero"),
                             f"{which}.subdiff_distance row {j}: W_j={W[j].tolist()}, grad={grad[k].tolist()} -> {got[k]!r}, reference {want!r}; spec={spec}"))
    val = float(skp.value(W))
    if not close(val, rp.value(W), 1e-12, 1e-300):
        viol.append(Viol(dict(sig0, kind="value-mismatch"), f"{which}.value={val!r} vs documented {rp.value(W)!r}; W={W.tolist()} spec={spec}"))
    if mode != "c":
        lips = np.array(case["lips"], float)
        for k in range(len(lips)):
            lim = spec["gamma"] if which == "BlockMCPenalty" else (spec["gamma"] - 1 if which == "BlockSCAD" else np.inf)
            if lips[k] > 0 and 1. / lips[k] >= .99 * lim:
                lips[k] = 0.
        d = np.asarray(multitask_bcd.dist_fix_point_bcd(W, grad, lips, None, skp, ws), float)
        for k, j in enumerate(ws):
            if lips[k] == 0:
                want = 0.
            else:
                u = np.asarray(skp.prox_1feat(W[j] - grad[k] / lips[k], 1 / lips[k], int(j)), float)
                want = float(np.linalg.norm(W[j] - u))
            if not close(float(d[k]), want, 1e-9, 1e-12 * scale):
                viol.append(Viol(dict(sig0, kind="fixpoint-distance-mismatch"), f"multitask dist_fix_point_bcd[{k}]={d[k]!r} vs {want!r}"))
    return result(viol, kink or mode == "c", classes + (["on-kink"] if kink else []))
