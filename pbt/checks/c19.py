"""C19 -- degenerate but legitimate data: finite certified result (exact zero on null columns) or an
explanatory ValueError; never NaN/inf, a division by zero or another failure."""
import math

import numpy as np
from hypothesis import strategies as st

from .. import gen, problems as P
from ..common import Viol, result, bootstrap
from . import c01, c13

PROPERTY = "C19"
RULE = ("one case = a composition run on the *structured* matrix family with at least one forced degeneracy: all-zero "
        "column(s) or group (dense and empty CSC columns), duplicated column, constant column (with / without "
        "intercept), n < p, p = 1, a single group, constant or zero regression target, per-feature scales 10^-6..10^6; "
        "all knobs and budgets; cold or warm start. Oracle: outcome is a finite result (coefficients, stop_crit after "
        ">= 1 iteration, objective history) that meets the C01 certificate when convergence is claimed and has an "
        "exactly-zero penalised coefficient on every all-zero column that started at zero, or an explanatory "
        "ValueError. ZeroDivisionError / NaN / inf / any other exception is a violation. Non-trivial: the degenerate "
        "structure is present AND the solver performed at least one iteration on it (not refused, max_iter > 0).")
ASSUMPTIONS = ["classification / count / positive targets keep the problem bounded (both classes present, one positive count)",
               "termination is bounded by the finite iteration budgets; the runner's shard timeout reports a hang as a harness error (inconclusive), never as a violation by itself"]

COMPS = [
    ("scalar", "AndersonCD", "Quadratic", "L1"), ("scalar", "AndersonCD", "Quadratic", "WeightedL1"),
    ("scalar", "AndersonCD", "Logistic", "L1"), ("scalar", "AndersonCD", "Huber", "MCPenalty"),
    ("scalar", "AndersonCD", "Quadratic", "L1_plus_L2"), ("scalar", "AndersonCD", "QuadraticSVC", "IndicatorBox"),
    ("scalar", "AndersonCD", "Quadratic", "L0_5"), ("scalar", "AndersonCD", "WeightedQuadratic", "SCAD"),
    ("scalar", "ProxNewton", "Logistic", "L1"), ("scalar", "ProxNewton", "Poisson", "WeightedL1"),
    ("scalar", "ProxNewton", "Quadratic", "L1_plus_L2"), ("scalar", "ProxNewton", "Cox-efron", "L1"),
    ("scalar", "GramCD", "Quadratic", "L1"), ("scalar", "GramCD", "Quadratic", "WeightedL1"),
    ("scalar", "FISTA", "Quadratic", "L1"), ("scalar", "FISTA", "Logistic", "L1_plus_L2"),
    ("scalar", "LBFGS", "Quadratic", "L2"), ("scalar", "LBFGS", "Logistic", "L2"),
    ("group", "GroupBCD", "QuadraticGroup", "WeightedGroupL2"), ("group", "GroupBCD", "LogisticGroup", "WeightedGroupL2"),
    ("group", "GroupProxNewton", "LogisticGroup", "WeightedGroupL2"),
    ("multitask", "MultiTaskBCD", "QuadraticMultiTask", "L2_1"), ("multitask", "MultiTaskBCD", "QuadraticMultiTask", "BlockSCAD"),
    ("scalar", "PDCD_WS", "Pinball", "L1"), ("scalar", "PDCD_WS", "SqrtQuadratic", "L1"),
]
QUICK = {0, 1, 2, 3, 5, 8, 9, 11, 12, 13, 14, 16, 18, 19, 20, 21, 23, 24}


def shards(tier):
    n = 150 if tier == "quick" else 800
    out = []
    for i, (kind, s, f, p) in enumerate(COMPS):
        if tier == "quick" and i not in QUICK:
            continue
        out.append(dict(id=f"{s}-{f}-{p}", kind=kind, solver=s, fam=f, pen=p, n=n, cost=n * (3 if kind != "scalar" else 1)))
    return out


@st.composite
def degenerate_matrix(draw):
    n = draw(st.integers(2, 14))
    p = draw(st.sampled_from([1, 1, 2, 3, 4, 5, 6, 8, 10]))
    if draw(st.integers(0, 3)) == 0:
        n = draw(st.integers(2, max(2, p)))          # n <= p
    X = draw(gen.hnp.arrays(np.float64, (n, p), elements=st.sampled_from(gen.ALPHABET)))
    flags = []
    kinds = draw(st.lists(st.sampled_from(["zero-col", "zero-col", "dup-col", "const-col", "scales", "zero-last-col", "none"]),
                          min_size=1, max_size=3))
    for k in kinds:
        if k == "zero-col":
            j = draw(st.integers(0, p - 1))
            X[:, j] = 0.
        elif k == "zero-last-col":
            X[:, -1] = 0.
        elif k == "dup-col" and p >= 2:
            j, l = draw(st.integers(0, p - 1)), draw(st.integers(0, p - 1))
            if j != l:
                X[:, j] = X[:, l] * draw(st.sampled_from([1., -1., 2.]))
        elif k == "const-col":
            X[:, draw(st.integers(0, p - 1))] = draw(st.sampled_from([1., -2., .5]))
        elif k == "scales":
            ex = draw(st.lists(st.integers(-6, 6), min_size=p, max_size=p))
            X = X * (10. ** np.array(ex, float))[None, :]
        flags.append(k)
    if p == 1:
        flags.append("p=1")
    if n < p:
        flags.append("n<p")
    return dict(X=X.tolist(), n=n, p=p, flags=sorted(set(flags)))


@st.composite
def case_strategy(draw, shard):
    kind, solver, fam, pen = shard["kind"], shard["solver"], shard["fam"], shard["pen"]
    m = draw(degenerate_matrix())
    X = np.array(m["X"])
    n, p = X.shape
    case = dict(X=m["X"], flags=m["flags"])
    # targets: include constant / zero regression targets
    if fam in ("Quadratic", "WeightedQuadratic", "Huber", "QuadraticGroup", "Pinball", "SqrtQuadratic") or solver == "GramCD":
        tk = draw(st.sampled_from(["planted", "generic", "zero", "const"]))
        if tk == "zero":
            y = [0.] * n
        elif tk == "const":
            y = [draw(st.sampled_from([1., -2., 5.]))] * n
        elif tk == "planted":
            y = draw(gen.planted_target(X))
        else:
            y = draw(gen.real_target(n))
        case["flags"] = case["flags"] + ["y-" + tk]
        spec = dict(name=fam)
        if fam == "Huber":
            spec["delta"] = draw(gen.pos_float(-1, 1))
        if fam == "WeightedQuadratic":
            spec["sample_weights"] = [draw(st.integers(1, 40)) / 10. for _ in range(n)]
        if fam == "Pinball":
            spec["quantile"] = draw(st.sampled_from([.5, .2, .8]))
        case["datafit"], case["y"] = (None if solver == "GramCD" else spec), y
    elif fam == "QuadraticMultiTask":
        T = draw(st.integers(1, 3))
        tk = draw(st.sampled_from(["generic", "zero", "const"]))
        if tk == "generic":
            Y = [[draw(gen.real(-1, 0)) for _ in range(T)] for _ in range(n)]
        else:
            c = 0. if tk == "zero" else 2.
            Y = [[c] * T for _ in range(n)]
        case["datafit"], case["y"] = dict(name=fam), Y
        case["flags"] = case["flags"] + ["y-" + tk]
    else:
        case["datafit"], case["y"] = P.datafit_spec_and_target(draw, fam, X)
        if fam == "Poisson":
            case["y"][0] += 1.
    if kind == "group":
        groups = draw(gen.partition(p)) if draw(st.booleans()) else [list(range(p))]
        case["datafit"].update(groups=groups, n_features=p)
        if len(groups) == 1:
            case["flags"] = case["flags"] + ["one-group"]
        wts = draw(gen.weights(len(groups)))
        g0 = P.null_gradient(case)
        norms = [np.linalg.norm(g0[g]) / w for g, w in zip(groups, wts) if w > 0]
        amax = max(norms) if norms and max(norms) > 0 else 1.
        case["penalty"] = dict(name="WeightedGroupL2", alpha=float(amax * draw(gen.frac_log(-3, .3, 33))), weights=wts,
                               groups=groups, n_features=p, positive=draw(st.booleans()))
    elif kind == "multitask":
        Yn = np.array(case["y"])
        G0 = X.T @ Yn / n
        amax = float(np.linalg.norm(G0, axis=1).max()) or 1.
        spec = dict(name=pen, alpha=float(amax * draw(gen.frac_log(-3, .3, 33))))
        if pen in ("BlockMCPenalty", "BlockSCAD"):
            L = (X ** 2).sum(0) / n
            inv = float(1. / L[L > 0].min()) if (L > 0).any() else 1.
            spec["gamma"] = float(inv * draw(st.sampled_from([1.1, 3.])) + (1. if pen == "BlockSCAD" else 0.))
        case["penalty"] = spec
    elif pen == "L2":
        case["penalty"] = dict(name="L2", alpha=draw(gen.pos_float(-3, 0)))
    elif fam in ("Pinball", "SqrtQuadratic"):
        case["penalty"] = dict(name="L1", alpha=draw(gen.pos_float(-2, 0)))
    else:
        nvar = n if fam == "QuadraticSVC" else p
        case["penalty"] = draw(P.scalar_penalty_spec(pen, case, nvar))
    if solver == "PDCD_WS":
        case["solver"] = dict(name="PDCD_WS", max_iter=draw(st.sampled_from([0, 1, 5, 100])), max_epochs=draw(st.sampled_from([1, 10, 200])),
                              p0=draw(st.sampled_from([1, 3, 100])), tol=draw(gen.tols()))
        case["storage"] = "dense"
    else:
        case["solver"] = draw(P.solver_spec(solver))
        if fam == "QuadraticSVC" and "fit_intercept" in case["solver"]:
            case["solver"]["fit_intercept"] = False
        stor = ["dense", "csc"]
        if solver in ("GroupProxNewton",) or (solver == "GroupBCD" and fam == "LogisticGroup") or (solver == "LBFGS" and fam == "Quadratic"):
            stor = ["dense"]
        case["storage"] = draw(st.sampled_from(stor))
    case["init"] = None
    if kind == "scalar" and solver in ("AndersonCD", "ProxNewton", "GramCD") and draw(st.integers(0, 2)) == 0:
        # warm start, with a non-zero coefficient sitting on an all-zero column when there is one: a converged fit
        # must still bring it back to exactly zero
        nvar = n if fam == "QuadraticSVC" else p
        fi_ = bool(case["solver"].get("fit_intercept", False)) and solver != "GramCD"
        init = draw(P.start_point(nvar, fi_, pen, case["penalty"]))
        if init is not None:
            Xe = (np.array(case["y"])[:, None] * X).T if fam == "QuadraticSVC" else X
            nulls = [j for j in range(Xe.shape[1]) if not Xe[:, j].any()]
            if nulls and draw(st.booleans()):
                j0 = nulls[draw(st.integers(0, len(nulls) - 1))]
                v = draw(gen.real(-1, 0, zero=0.))
                if case["penalty"].get("positive") or pen in ("IndicatorBox", "PositiveConstraint"):
                    v = abs(v)
                if pen == "IndicatorBox":
                    v = min(v, case["penalty"]["alpha"])
                init["w"][j0] = v
                init["kind"] = init["kind"] + "+null-column"
            case["init"] = init
    return case


def strategy(shard):
    return case_strategy(shard)


def check_case(case):
    bootstrap()
    X = np.array(case["X"], float)
    solver = case["solver"]["name"]
    sig = dict(solver=solver, datafit=(case["datafit"] or {}).get("name", "None"), penalty=case["penalty"]["name"], storage=case["storage"],
               unsorted_groups=P.unsorted_groups(case))
    classes = [solver] + case["flags"]
    if case["datafit"] and case["datafit"]["name"] == "QuadraticSVC":
        Xeff = (np.array(case["y"])[:, None] * X).T
    else:
        Xeff = X
    zero_cols = [j for j in range(Xeff.shape[1]) if not Xeff[:, j].any()]
    out = P.run(case)
    if out.exc is not None:
        e = out.exc
        if isinstance(e, ValueError) and c13.EXPLAIN.search(str(e)) and "broadcast" not in str(e):
            return result([], False, classes + ["refused:" + type(e).__name__])
        if isinstance(e, AttributeError) and c13.EXPLAIN.search(str(e)):
            return result([], False, classes + ["refused:AttributeError"])
        cause = "zero-lipschitz" if zero_cols else ("zero-target" if any(f in ("y-zero",) for f in case["flags"]) else "other")
        wild = c01.wild_newton_step(case, None) if solver in ("ProxNewton", "GroupProxNewton") else False
        return result([Viol(dict(sig, kind="exception", exc=type(e).__name__, cause=cause, wild_newton_step=wild),
                            f"{solver} on degenerate data {case['flags']} raised {type(e).__name__}: {str(e)[:150]!r}")], True, classes)
    viol = []
    w = np.asarray(out.w)
    n_iter = len(out.obj)
    ran = case["solver"].get("max_iter", 1) > 0
    if not np.all(np.isfinite(w)):
        wild = c01.wild_newton_step(case, None, nonfinite=True) if solver in ("ProxNewton", "GroupProxNewton") else False
        viol.append(Viol(dict(sig, kind="non-finite", what="coefficients", wild_newton_step=wild), f"{solver} on {case['flags']} returned non-finite coefficients"))
        return result(viol, True, classes)
    nf_stop = ran and n_iter >= 1 and not math.isfinite(out.stop)
    nf_obj = not np.all(np.isfinite(out.obj))
    if (nf_stop or nf_obj) and case.get("init") is not None:
        # a user-supplied start whose loss already overflows (|eta| > 709 on badly scaled columns): an infinite first
        # history entry / criterion is the truth about that point, not a blow-up
        from .c03 import start_point, F_of
        with np.errstate(all="ignore"):
            if not math.isfinite(F_of(case, start_point(case))):
                classes.append("loss-overflows-at-start")
                nf_stop = nf_obj = False
    wild = c01.wild_newton_step(case, None, nonfinite=True) if (nf_stop or nf_obj) and solver in ("ProxNewton", "GroupProxNewton") else False
    if nf_stop:
        viol.append(Viol(dict(sig, kind="non-finite", what="stop_crit", wild_newton_step=wild), f"{solver} on {case['flags']} returned stop_crit={out.stop!r} after {n_iter} iterations"))
    if nf_obj:
        viol.append(Viol(dict(sig, kind="non-finite", what="objective-history", wild_newton_step=wild), f"{solver} on {case['flags']} returned a non-finite objective history {out.obj.tolist()[:5]}"))
    # exact zero on all-zero columns (penalised, cold start)
    pen_spec = case["penalty"]
    for j in zero_cols:
        if pen_spec["name"] in ("L2", "IndicatorBox", "PositiveConstraint"):
            continue
        if pen_spec["name"] == "WeightedGroupL2":
            continue
        wts = pen_spec.get("weights")
        if wts is not None and wts[j] == 0:
            continue
        wj = w[j]
        if np.any(wj != 0) and case.get("init") is None:
            viol.append(Viol(dict(sig, kind="nonzero-on-null-column"), f"{solver}: penalised coefficient on all-zero column {j} is {np.asarray(wj).tolist()!r} (cold start)"))
            break
        if np.any(wj != 0) and case.get("init") is not None and not (out.stop <= case["solver"]["tol"]) and pen_spec["name"] in ("L1", "WeightedL1", "L1_plus_L2") \
                and case["solver"].get("max_iter", 0) >= 20 and case["solver"].get("max_epochs", case["solver"].get("max_pn_iter", 1000)) >= 100:
            # warm start, run not converged: no claim by itself.  Differential: the same solver, same budget, on the other
            # storage format converges and has the exact zero there
            other = "csc" if case["storage"] == "dense" else "dense"
            o2 = P.run(dict(case, storage=other))
            if o2.exc is None and o2.w is not None and o2.stop <= case["solver"]["tol"] and not np.any(np.asarray(o2.w)[j] != 0):
                viol.append(Viol(dict(sig, kind="nonzero-on-null-column", warm=True, sibling=other),
                                 f"{solver} [{case['storage']}]: warm-started penalised coefficient on all-zero column {j} is still {np.asarray(wj).tolist()!r} after the "
                                 f"full budget (stop_crit={out.stop:.2e} > tol) while the same solver on {other} storage converges with an exact zero there"))
                break
    if pen_spec["name"] == "WeightedGroupL2":
        for g, idx in enumerate(pen_spec["groups"]):
            if pen_spec["weights"][g] > 0 and not X[:, idx].any() and np.any(w[idx] != 0):
                viol.append(Viol(dict(sig, kind="nonzero-on-null-column"), f"{solver}: penalised all-zero group {g} has coefficients {w[idx].tolist()}"))
                break
    tol = case["solver"]["tol"]
    claims = out.stop < tol if solver == "FISTA" else out.stop <= tol
    if not claims and not viol and ran:
        msg = c01.stagnation(case, out, tol)
        if msg:
            viol.append(Viol(dict(sig, kind="stagnates"), f"{solver} on {case['flags']}: {msg}"))
    if claims and not viol and solver != "PDCD_WS":
        strat = case["solver"].get("ws_strategy") or "subdiff"
        if solver in ("GramCD", "GroupProxNewton", "LBFGS"):
            strat = "subdiff"
        if solver == "FISTA":
            strat = case["solver"].get("opt_strategy") or "subdiff"
        if not (solver == "FISTA" and pen_spec["name"] not in ("L1", "L1_plus_L2")):
            c = c01.certificate(case, out.w, strat)
            lim = tol * (1 + 1e-6)
            exc = c["vec"] - lim - 1e-8 * c["gscale"]
            if (len(exc) and exc.max() > 0) or c["icpt"] > lim + 1e-8 * c["icpt_scale"]:
                viol.append(Viol(dict(sig, kind="certificate", component="feature-gradient" if (len(exc) and exc.max() > 0) else "intercept-gradient",
                                      strategy=strat),
                                 f"{solver} on {case['flags']}: stop_crit={out.stop:.2e} <= tol={tol:g} but recomputed violation {max(c['feat'], c['icpt']):.3e}"))
    degenerate = any(f in case["flags"] for f in ("zero-col", "zero-last-col", "dup-col", "const-col", "scales", "p=1", "n<p", "one-group", "y-zero", "y-const"))
    if zero_cols:
        classes.append("has-null-column")
    if claims:
        classes.append("claims-convergence")
    return result(viol, degenerate and ran, classes)
