"""C02 -- converged convex fits reach the optimum of an independent reference implementation."""
import math
import warnings

import numpy as np
from hypothesis import strategies as st

from .. import gen, problems as P, metamorph as M, refmath as R
from ..common import Viol, result, bootstrap

PROPERTY = "C02"
RULE = ("one case = convex model family + generated data (n < p and n > p, correlated / duplicated columns, scales) + "
        "regularisation strength and mixing parameters relative to the problem. Every applicable skglm solver / "
        "estimator is run cold to tol 1e-9 (non-converged = inconclusive) and compared (i) with an independent "
        "reference: scikit-learn Lasso / ElasticNet (incl. positive) / LogisticRegression(liblinear, l1) / "
        "LinearSVC(hinge) / MultiTaskLasso, celer GroupLasso, scipy.optimize.linprog (HiGHS) on the quantile-regression "
        "LP, and a Fenchel-dual certificate for the square-root Lasso; (ii) pairwise with the other skglm solvers. "
        "Oracle: objectives (refmath, documented formula) agree within the subgradient-inequality margin 2 tol |dw|_1 "
        "plus the reference's own accuracy (1e-7 relative), coefficients within the strong-convexity bound when "
        "mu > 0. Non-trivial: the reference solution has at least one zero and one non-zero penalised coefficient "
        "(SVC: a dual variable strictly inside (0, C)).")
ASSUMPTIONS = ["references are trusted to 1e-7 relative on the objective (run at their tightest tolerances)",
               "square-root Lasso only above its documented small-residual guard", "liblinear penalises the intercept: logistic and SVC pairs are compared without intercept"]

FAMILIES = ["lasso", "enet", "lasso-positive", "enet-positive", "logreg-l1", "svc-hinge", "multitask-lasso", "group-lasso", "quantile-l1", "sqrt-lasso"]


def shards(tier):
    n = 120 if tier == "quick" else 500
    return [dict(id=f, fam=f, n=n, cost=n * (4 if f in ("group-lasso", "multitask-lasso", "quantile-l1") else 2)) for f in FAMILIES]


@st.composite
def case_strategy(draw, fam):
    m = draw(gen.matrix(n_min=4, n_max=20, p_min=2, p_max=10, degenerate=True, scales=False))
    X = np.array(m["X"])
    n, p = X.shape
    for j in range(p):
        if not X[:, j].any():
            X[j % n, j] = 1.
    case = dict(fam=fam, X=X.tolist(), flags=m["flags"], frac=draw(gen.frac_log(-2., -.05, 20)), fit_intercept=draw(st.booleans()))
    if fam in ("logreg-l1", "svc-hinge"):
        case["y"] = draw(gen.planted_sign_target(X))
        case["fit_intercept"] = False
        case["C"] = draw(st.sampled_from([.1, 1., 10.]))
    elif fam == "multitask-lasso":
        T = draw(st.integers(1, 3))
        W = np.array([[draw(st.sampled_from([0., 0., 1., -1.])) for _ in range(T)] for _ in range(p)])
        noise = np.array([[draw(st.integers(-500, 500)) / 1000. for _ in range(T)] for _ in range(n)])
        case["y"] = (X @ W + noise + 1.).tolist()
    else:
        case["y"] = draw(gen.planted_target(X))
    if fam.startswith("enet"):
        case["l1_ratio"] = draw(st.sampled_from([.5, .9, .1]))
    if fam == "group-lasso":
        case["groups"] = draw(gen.partition(p, contiguous=True))
        case["gweights"] = draw(gen.weights(len(case["groups"]), zero_prob=0.))
    if fam == "quantile-l1":
        case["q"] = draw(st.sampled_from([.5, .3, .7]))
        case["fit_intercept"] = False
    if fam == "sqrt-lasso":
        case["y"] = [float(v + (-1) ** i * (i % 3 + 1)) for i, v in enumerate(case["y"])]
        case["fit_intercept"] = False
    return case


def strategy(shard):
    return case_strategy(shard["fam"])


TOL = 1e-9


def run_skglm(pc):
    o, st_ = M.converged(pc)
    return (np.asarray(o.w, float) if st_ == "ok" else None), st_, o


def check_case(case):
    bootstrap()
    import skglm
    fam = case["fam"]
    X = np.asfortranarray(np.array(case["X"], float))
    y = np.array(case["y"], float)
    n, p = X.shape
    fi = case["fit_intercept"]
    sig = dict(family=fam, fit_intercept=fi)
    classes = [fam]
    viol = []
    sols = {}      # name -> full coefficient vector (with intercept last if fi)
    warnings.simplefilter("ignore")

    def sk_case(solver, datafit, penalty, **kw):
        s = dict(name=solver, tol=TOL, **kw)
        if solver in ("AndersonCD", "ProxNewton", "GroupBCD", "MultiTaskBCD"):
            s["fit_intercept"] = fi
        return M.tight(dict(X=case["X"], y=case["y"], datafit=datafit, penalty=penalty, solver=s, storage="dense", init=None), TOL)

    if fam in ("lasso", "enet", "lasso-positive", "enet-positive"):
        from sklearn.linear_model import Lasso as SkLasso, ElasticNet as SkEnet
        pos = fam.endswith("positive")
        amax = np.abs(X.T @ (y - y.mean() * fi)).max() / n
        alpha = float(amax * case["frac"]) or 1.
        if fam.startswith("lasso"):
            pen = dict(name="L1", alpha=alpha, positive=pos)
            ref = SkLasso(alpha=alpha, fit_intercept=fi, tol=1e-14, max_iter=1_000_000, positive=pos).fit(X, y)
        else:
            r = case["l1_ratio"]
            pen = dict(name="L1_plus_L2", alpha=alpha, l1_ratio=r, positive=pos)
            ref = SkEnet(alpha=alpha, l1_ratio=r, fit_intercept=fi, tol=1e-14, max_iter=1_000_000, positive=pos).fit(X, y)
        w_ref = np.r_[ref.coef_, ref.intercept_] if fi else ref.coef_.copy()
        base = sk_case("AndersonCD", dict(name="Quadratic"), pen, ws_strategy="subdiff", p0=3)
        sols["AndersonCD/subdiff"] = run_skglm(base)
        sols["AndersonCD/fixpoint"] = run_skglm(dict(base, solver=dict(base["solver"], ws_strategy="fixpoint")))
        sols["AndersonCD/csc"] = run_skglm(dict(base, storage="csc"))
        if not fi:
            for acc in (False, True):
                for greedy in (False, True):
                    if acc and greedy:
                        continue
                    sols[f"GramCD/acc={acc}/greedy={greedy}"] = run_skglm(dict(base, datafit=None, solver=dict(name="GramCD", tol=TOL, max_iter=20000, use_acc=acc, greedy_cd=greedy)))
            sols["FISTA"] = run_skglm(dict(base, solver=dict(name="FISTA", tol=TOL, max_iter=20000, opt_strategy="subdiff")))
        if not pos or True:
            sols["ProxNewton"] = run_skglm(dict(base, solver=dict(name="ProxNewton", tol=TOL, max_iter=200, max_pn_iter=500, p0=3, ws_strategy="subdiff", fit_intercept=fi)))
        est = (skglm.Lasso(alpha=alpha, fit_intercept=fi, tol=TOL, max_iter=300, positive=pos) if fam.startswith("lasso")
               else skglm.ElasticNet(alpha=alpha, l1_ratio=case["l1_ratio"], fit_intercept=fi, tol=TOL, max_iter=300, positive=pos))
        est.fit(X, y)
        if est.stop_crit_ <= TOL:
            sols["estimator"] = (np.r_[est.coef_, est.intercept_] if fi else est.coef_.copy(), "ok", None)
        ref_case = base
    elif fam == "logreg-l1":
        from sklearn.linear_model import LogisticRegression
        amax = np.abs(X.T @ y).max() / (2 * n)
        alpha = float(amax * case["frac"]) or 1.
        ref = LogisticRegression(penalty="l1", C=1 / (n * alpha), fit_intercept=False, tol=1e-12, solver="liblinear", max_iter=100000).fit(X, y)
        w_ref = ref.coef_.ravel().copy()
        base = sk_case("AndersonCD", dict(name="Logistic"), dict(name="L1", alpha=alpha), ws_strategy="subdiff", p0=3)
        sols["AndersonCD"] = run_skglm(base)
        sols["ProxNewton"] = run_skglm(dict(base, solver=dict(name="ProxNewton", tol=TOL, max_iter=200, max_pn_iter=500, p0=3, ws_strategy="subdiff", fit_intercept=False)))
        sols["FISTA"] = run_skglm(dict(base, solver=dict(name="FISTA", tol=TOL, max_iter=20000, opt_strategy="subdiff")))
        est = skglm.SparseLogisticRegression(alpha=alpha, fit_intercept=False, tol=TOL, max_iter=300).fit(X, y)
        if est.stop_crit_ <= TOL:
            sols["estimator"] = (est.coef_.ravel().copy(), "ok", None)
        ref_case = base
    elif fam == "svc-hinge":
        from sklearn.svm import LinearSVC as SkSVC
        C = case["C"]
        ref = SkSVC(loss="hinge", C=C, fit_intercept=False, tol=1e-12, max_iter=2_000_000, dual=True).fit(X, y)
        beta_ref = ref.coef_.ravel().copy()

        def primal(beta):
            return float(C * np.maximum(0, 1 - y * (X @ beta)).sum() + .5 * beta @ beta)
        est = skglm.LinearSVC(C=C, tol=TOL, max_iter=1000, fit_intercept=False).fit(X, y)
        got = {}
        if est.stop_crit_ <= TOL:
            got["estimator"] = est.coef_.ravel().copy()
        base = sk_case("AndersonCD", dict(name="QuadraticSVC"), dict(name="IndicatorBox", alpha=C), ws_strategy="subdiff", p0=3)
        base["solver"]["fit_intercept"] = False
        d, st_, _ = run_skglm(base)
        if d is not None:
            got["AndersonCD(dual)"] = (y * d) @ X
        dF, stF, _ = run_skglm(dict(base, solver=dict(name="FISTA", tol=TOL, max_iter=30000, opt_strategy="subdiff")))
        if dF is not None:
            got["FISTA(dual)"] = (y * dF) @ X
        Pr = primal(beta_ref)
        for name, b in got.items():
            Pb = primal(b)
            # primal objective is 1-strongly convex in beta: |beta - beta*|^2 / 2 <= P(beta) - P*
            if Pb > Pr + 1e-6 * (1 + abs(Pr)) or np.linalg.norm(b - beta_ref) > 1e-3 * (1 + np.linalg.norm(beta_ref)):
                if Pb > Pr + 1e-6 * (1 + abs(Pr)):
                    viol.append(Viol(dict(sig, solver=name, kind="objective-above-reference"), f"svc-hinge/{name}: primal objective {Pb!r} vs sklearn LinearSVC(hinge) {Pr!r}"))
                elif primal(b) < Pr - 1e-6 * (1 + abs(Pr)):
                    pass     # skglm strictly better than the reference: reference inaccuracy, not a violation
                else:
                    viol.append(Viol(dict(sig, solver=name, kind="coefficients-differ"), f"svc-hinge/{name}: coef differs from sklearn by {np.linalg.norm(b - beta_ref):.3e} at equal objective"))
        interior = d is not None and bool(np.any((d > 1e-9) & (d < C - 1e-9)))
        return result(viol, interior, classes + [f"solvers={len(got)}"])
    elif fam == "multitask-lasso":
        from sklearn.linear_model import MultiTaskLasso as SkMTL
        amax = np.linalg.norm(X.T @ (y - y.mean(0) * fi), axis=1).max() / n
        alpha = float(amax * case["frac"]) or 1.
        ref = SkMTL(alpha=alpha, fit_intercept=fi, tol=1e-14, max_iter=1_000_000).fit(X, y)
        w_ref = np.vstack([ref.coef_.T, ref.intercept_[None, :]]) if fi else ref.coef_.T.copy()
        base = sk_case("MultiTaskBCD", dict(name="QuadraticMultiTask"), dict(name="L2_1", alpha=alpha), ws_strategy="subdiff", p0=3, use_acc=True)
        sols["MultiTaskBCD/acc"] = run_skglm(base)
        sols["MultiTaskBCD/plain"] = run_skglm(dict(base, solver=dict(base["solver"], use_acc=False)))
        sols["MultiTaskBCD/fixpoint"] = run_skglm(dict(base, solver=dict(base["solver"], ws_strategy="fixpoint")))
        sols["MultiTaskBCD/csc"] = run_skglm(dict(base, storage="csc"))
        est = skglm.MultiTaskLasso(alpha=alpha, fit_intercept=fi, tol=TOL, max_iter=500).fit(X, y)
        if est.stopping_crit <= TOL:
            sols["estimator"] = (np.vstack([est.coef_.T, est.intercept_[None, :]]) if fi else est.coef_.T.copy(), "ok", None)
        ref_case = base
    elif fam == "group-lasso":
        from celer import GroupLasso as CelerGL
        groups, gw = case["groups"], np.array(case["gweights"], float)
        g0 = X.T @ (y - y.mean() * fi) / n
        amax = max(np.linalg.norm(g0[g]) / w for g, w in zip(groups, gw))
        alpha = float(amax * case["frac"]) or 1.
        ref = CelerGL(groups=[len(g) for g in groups], alpha=alpha, weights=gw, fit_intercept=fi, tol=1e-14, max_iter=1000, max_epochs=1_000_000).fit(X, y)
        w_ref = np.r_[ref.coef_, ref.intercept_] if fi else ref.coef_.copy()
        base = sk_case("GroupBCD", dict(name="QuadraticGroup", groups=groups, n_features=p),
                       dict(name="WeightedGroupL2", alpha=alpha, weights=gw.tolist(), groups=groups, n_features=p, positive=False), ws_strategy="subdiff", p0=3)
        sols["GroupBCD/subdiff"] = run_skglm(base)
        sols["GroupBCD/fixpoint"] = run_skglm(dict(base, solver=dict(base["solver"], ws_strategy="fixpoint")))
        sols["GroupBCD/csc"] = run_skglm(dict(base, storage="csc"))
        est = skglm.GroupLasso(groups=[len(g) for g in groups], alpha=alpha, weights=gw, fit_intercept=fi, tol=TOL, max_iter=2000).fit(X, y)
        if est.stop_crit_ <= TOL:
            sols["estimator"] = (np.r_[est.coef_, est.intercept_] if fi else est.coef_.copy(), "ok", None)
        ref_case = base
    elif fam == "quantile-l1":
        from scipy.optimize import linprog
        q = case["q"]
        alpha = float(np.abs(X.T @ np.where(y >= np.median(y), q, q - 1)).max() * case["frac"]) or 1.
        # LP: min q 1'u+ + (1-q) 1'u- + alpha 1'(w+ + w-)  s.t.  X(w+ - w-) + u+ - u- = y, all >= 0
        c = np.r_[alpha * np.ones(2 * p), q * np.ones(n), (1 - q) * np.ones(n)]
        A = np.c_[X, -X, np.eye(n), -np.eye(n)]
        lp = linprog(c, A_eq=A, b_eq=y, bounds=[(0, None)] * (2 * p + 2 * n), method="highs")
        if lp.status != 0:
            return result([], False, classes + ["reference-failed(inconclusive)"])
        Pstar = float(lp.fun)
        from skglm.experimental.pdcd_ws import PDCD_WS
        from skglm.experimental.quantile_regression import Pinball
        from skglm.penalties import L1
        from ..compose import compiled
        w, obj, sc = PDCD_WS(max_iter=1000, max_epochs=1000, tol=1e-8, p0=3).solve(X, y, compiled(Pinball(q)), compiled(L1(alpha)))
        if not sc <= 1e-8:
            return result([], False, classes + ["not-converged(inconclusive)"])
        Pw = R.Pinball(q).value(y, X @ w) + alpha * np.abs(w).sum()
        scale = abs(Pstar) + q * np.abs(y).sum()
        if Pw > Pstar + 1e-5 * scale or Pw < Pstar - 1e-7 * scale:
            viol.append(Viol(dict(sig, solver="PDCD_WS", kind="objective-differs"), f"quantile-l1: PDCD_WS objective {Pw!r} vs LP optimum {Pstar!r}"))
        return result(viol, bool(np.any(w != 0) and np.any(w == 0)), classes)
    elif fam == "sqrt-lasso":
        from skglm.experimental import SqrtLasso
        amax = np.abs(X.T @ y).max() / np.linalg.norm(y)
        alpha = float(amax * max(case["frac"], .05)) or 1.   # X^T y = 0: any alpha > 0 gives w = 0

        def Pobj(w):
            return float(np.linalg.norm(y - X @ w) + alpha * np.abs(w).sum())

        def dual_gap(w):
            r = y - X @ w
            th = r / max(np.linalg.norm(r), np.abs(X.T @ r).max() / alpha, 1e-300)
            return Pobj(w) - float(y @ th)
        got = {}
        try:
            e = SqrtLasso(alpha=alpha, tol=1e-9, max_iter=200).fit(X, y)
            got["SqrtLasso"] = e.coef_.ravel().copy()
        except Exception as ex:  # noqa
            if "SmallResidual" not in str(ex):
                viol.append(Viol(dict(sig, solver="SqrtLasso", kind="exception", exc=type(ex).__name__), f"SqrtLasso.fit raised {ex!r}"[:300]))
        base = M.tight(dict(X=case["X"], y=case["y"], datafit=dict(name="SqrtQuadratic"), penalty=dict(name="L1", alpha=alpha),
                            solver=dict(name="ProxNewton", tol=TOL, fit_intercept=False, p0=3, ws_strategy="subdiff"), storage="dense", init=None), TOL)
        wpn, stp, opn = run_skglm(base)
        if wpn is not None:
            got["ProxNewton"] = wpn
        from skglm.experimental.pdcd_ws import PDCD_WS
        from skglm.experimental.sqrt_lasso import SqrtQuadratic
        from skglm.penalties import L1
        from ..compose import compiled
        wpd, _, scpd = PDCD_WS(max_iter=1000, max_epochs=1000, tol=1e-8, p0=3).solve(X, y, compiled(SqrtQuadratic()), compiled(L1(alpha)))
        if scpd <= 1e-8:
            got["PDCD_WS"] = wpd
        for name, w in got.items():
            if np.linalg.norm(y - X @ w) <= 1e-2 * np.linalg.norm(y):
                continue
            gap = dual_gap(w)
            if gap > 1e-5 * (1 + np.linalg.norm(y)):
                viol.append(Viol(dict(sig, solver=name, kind="duality-gap"), f"sqrt-lasso/{name}: duality gap {gap:.3e} at the returned point (objective {Pobj(w)!r})"))
        ws_ = [w for w in got.values()]
        nz = bool(ws_ and np.any(ws_[0] != 0) and np.any(ws_[0] == 0))
        return result(viol, nz, classes + [f"solvers={len(got)}"])
    # ---- generic comparison against the reference solution (same documented objective)
    w_ref = np.asarray(w_ref, float)
    n_ok = 0
    for name, (w, st_, o) in sols.items():
        if st_ == "exception":
            viol.append(Viol(dict(sig, solver=name, kind="exception", exc=type(o.exc).__name__), f"{fam}/{name} raised {type(o.exc).__name__}: {str(o.exc)[:150]}"))
            continue
        if w is None:
            classes.append(f"not-converged:{name}")
            continue
        n_ok += 1
        factor = 2.
        if "fixpoint" in name:
            L = P.group_lipschitz(ref_case) if "groups" in ref_case["penalty"] else (X ** 2).sum(0) / n
            factor *= max(1., float(np.max(L)))
        if name == "FISTA":
            factor *= 2
        Fa, Fb = M.F_of(ref_case, w_ref), M.F_of(ref_case, w)
        yv = np.asarray(y, float)
        fscale = float((yv ** 2).sum() / n)
        margin = factor * TOL * float(np.abs(w - w_ref).sum()) + 1e-7 * (abs(Fa) + fscale)
        if Fb > Fa + margin:
            viol.append(Viol(dict(sig, solver=name, kind="objective-above-reference"),
                             f"{fam}/{name}: converged (tol {TOL:g}) at objective {Fb!r} but the reference implementation reaches {Fa!r} (excess {Fb - Fa:.3e} > margin {margin:.3e})"))
        elif Fb >= Fa - margin:
            v2 = M.compare(ref_case, w_ref, w, max(TOL, 1e-8), f"{fam}/{name} vs reference", dict(sig, solver=name), Viol, factor=factor * 10)
            viol += [v for v in v2 if v["sig"].get("kind") == "coefficients-differ"]
    pen_ref = np.abs(w_ref[:p]).reshape(p, -1).sum(1)
    return result(viol, bool(np.any(pen_ref != 0) and np.any(pen_ref == 0)) and n_ok >= 2, classes + [f"solvers={n_ok}"])
