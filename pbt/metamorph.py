"""Helpers for solution-level relations between two converged convex solves (DESIGN.md 2.5)."""
import math

import numpy as np

from . import problems as P


def F_of(case, w):
    if case["solver"]["name"] == "MultiTaskBCD":
        return P.multitask_objective(case, w)
    return P.objective(case, w)


def tight(case, tol=1e-9):
    """same problem, generous budgets, tight tolerance, cold start, subdifferential criterion"""
    s = dict(case["solver"])
    name = s["name"]
    s["tol"] = tol
    if "ws_strategy" in s:
        s["ws_strategy"] = "fixpoint" if case["penalty"]["name"] == "WeightedL1GroupL2" else "subdiff"
    if name == "AndersonCD":
        s.update(max_iter=100, max_epochs=3000)
    elif name in ("ProxNewton", "GroupProxNewton"):
        s.update(max_iter=100, max_pn_iter=300)
    elif name == "GramCD":
        s.update(max_iter=50000)
    elif name == "GroupBCD":
        s.update(max_iter=200, max_epochs=2000)
    elif name == "MultiTaskBCD":
        s.update(max_iter=200, max_epochs=3000)
    elif name == "FISTA":
        s.update(max_iter=30000, opt_strategy="subdiff")
    elif name == "LBFGS":
        s.update(max_iter=2000)
    return dict(case, solver=s, init=None)


def converged(case):
    out = P.run(case)
    tol = case["solver"]["tol"]
    if out.exc is not None:
        return out, "exception"
    ok = out.stop < tol if case["solver"]["name"] == "FISTA" else out.stop <= tol
    if not ok or not np.all(np.isfinite(out.w)):
        return out, "not-converged"
    return out, "ok"


def strong_convexity(case):
    """mu of the objective restricted to (w, b): lambda_min(X~^T X~)/n (+ alpha(1-l1_ratio)); 0 if unknown / non-quadratic"""
    d = case["datafit"]
    X = np.array(case["X"], float)
    n = X.shape[0]
    fi = bool(case["solver"].get("fit_intercept", False)) and case["solver"]["name"] not in ("GramCD", "FISTA", "LBFGS")
    mu = 0.
    nm = d["name"] if d else "Quadratic"
    if nm in ("Quadratic", "QuadraticGroup", "QuadraticMultiTask"):
        Xt = np.c_[X, np.ones(n)] if fi else X
        mu = max(0., float(np.linalg.eigvalsh(Xt.T @ Xt / n)[0]))
    pen = case["penalty"]
    if pen["name"] == "L1_plus_L2" and not fi:
        mu += pen["alpha"] * (1 - pen["l1_ratio"])
    if pen["name"] == "L2":
        mu += pen["alpha"]
    return mu


def compare(case, w_ref, w_other, tol, what, sig, Viol, factor=2.):
    """two tol-certified points of the SAME problem (w_other already mapped back): objectives within the
    subgradient-inequality margin, coefficients within sqrt(2 margin / mu) when mu > 0. -> list of violations"""
    w_ref = np.asarray(w_ref, float)
    w_other = np.asarray(w_other, float)
    viol = []
    if w_ref.shape != w_other.shape:
        return [Viol(dict(sig, kind="shape"), f"{what}: shapes {w_ref.shape} vs {w_other.shape}")]
    Fa, Fb = F_of(case, w_ref), F_of(case, w_other)
    d = (w_ref - w_other).ravel()
    dist1 = float(np.abs(d).sum())
    y = np.asarray(case["y"], float)
    fscale = float((y ** 2).sum() / max(1, y.shape[0])) if y.dtype.kind == "f" and not (case["datafit"] and case["datafit"]["name"] == "Cox") else 1.
    margin = factor * tol * dist1 + 1e-9 * (abs(Fa) + abs(Fb) + fscale)
    if not (abs(Fa - Fb) <= margin) and not (math.isinf(Fa) and math.isinf(Fb)):
        viol.append(Viol(dict(sig, kind="objective-differs"),
                         f"{what}: objective {Fb!r} vs reference {Fa!r} on the same problem (|diff| {abs(Fa - Fb):.3e} > margin {margin:.3e}; both certified at tol={tol:g})"))
        return viol
    mu = strong_convexity(case)
    if mu > 1e-8:
        bound = math.sqrt(2 * max(margin, 0.) / mu) + factor * tol * math.sqrt(d.size) / mu + 1e-9 * (1 + float(np.max(np.abs(w_ref))) if w_ref.size else 0.)
        dist2 = float(np.linalg.norm(d))
        if dist2 > bound:
            viol.append(Viol(dict(sig, kind="coefficients-differ"),
                             f"{what}: ||w - w_ref||_2 = {dist2:.3e} > strong-convexity bound {bound:.3e} (mu={mu:.3e})"))
    return viol
