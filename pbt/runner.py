"""Sharded property-based test runner (DESIGN.md section 2).

./run <ID> --tier quick|thorough         run the property's generated search, write evidence
./run <ID> --replay <file>               bypass Hypothesis, re-check one saved case
Exit: 0 held (maybe KNOWN-FINDING lines) / 1 VIOLATION / 2 harness error.
"""
import argparse
import importlib
import json
import multiprocessing as mp
import os
import queue
import shutil
import sys
import time
import traceback
from collections import Counter

from .common import VERIF_DIR, canon, sha, derive_seed, match_known, to_jsonable

MAX_SAMPLES_PER_SHARD = 2
MAX_SAMPLES_TOTAL = 16


class Unlisted(Exception):
    pass


from .common import HarnessError  # noqa: E402
HARNESS_BUG_TYPES = (KeyError, AssertionError, NameError, ImportError, NotImplementedError, HarnessError)


def safe_check(mod, case):
    """Run check_case; an exception escaping it that can come from the code under test (compiled kernels
    raise without Python frames) is a violation of kind 'uncaught-exception', not a harness error."""
    try:
        return mod.check_case(case)
    except Unlisted:
        raise
    except HARNESS_BUG_TYPES:
        raise
    except Exception as e:  # noqa
        tb = traceback.extract_tb(e.__traceback__)
        where = next((f"{os.path.basename(fr.filename)}:{fr.name}" for fr in reversed(tb)
                      if "/pbt/" in fr.filename), "?")
        from .common import Viol, result
        return result([Viol(dict(kind="uncaught-exception", exc=type(e).__name__, at=where),
                            f"{type(e).__name__}: {str(e)[:300]} (raised under {where})")], True, ["uncaught-exception"])


class Recorder:
    """Per-shard bookkeeping shared by @given shards and state-machine shards."""

    def __init__(self, prop, shard, scratch):
        self.prop, self.shard = prop, shard
        self.crumb = os.path.join(scratch, f"{shard['id']}.current.json")
        self.evaluations = 0
        self.hashes = set()
        self.samples = []
        self.classes = Counter()
        self.known = {}
        self.info = {}
        self.sums = Counter()
        self.last_fail = None

    def breadcrumb(self, case):
        with open(self.crumb, "w") as f:
            f.write(canon(case))

    def record(self, case, res):
        """Book-keep one executed case; raise Unlisted if it carries an unlisted violation."""
        self.evaluations += 1
        for c in res["classes"]:
            self.classes[c] += 1
        for k, v in res.get("info", {}).items():
            if isinstance(v, (int, float)):
                self.info[k] = max(self.info.get(k, v), v)
        for k, v in res.get("sums", {}).items():
            self.sums[k] += v
        unlisted = []
        for v in res["viol"]:
            e = match_known(self.prop, v["sig"])
            if e is None:
                unlisted.append(v)
            else:
                slot = self.known.setdefault(e["id"], dict(count=0, what=e["what"], example=None))
                slot["count"] += 1
                if slot["example"] is None:
                    slot["example"] = dict(sig=v["sig"], msg=v["msg"])
        if res["nontrivial"]:
            h = sha(case)
            if h not in self.hashes:
                self.hashes.add(h)
                if len(self.samples) < MAX_SAMPLES_PER_SHARD:
                    self.samples.append(dict(shard=self.shard["id"], case=to_jsonable(case),
                                             classes=res["classes"]))
        self.classes["nontrivial" if res["nontrivial"] else "trivial"] += 1
        if unlisted:
            self.classes["unlisted-violation"] += 1
            self.last_fail = dict(case=to_jsonable(case), violations=unlisted)
            raise Unlisted(unlisted[0]["msg"])

    def out(self, **kw):
        d = dict(shard=self.shard["id"], evaluations=self.evaluations,
                 hashes=sorted(self.hashes), samples=self.samples,
                 classes=dict(self.classes), known=self.known, info=self.info, sums=dict(self.sums),
                 violation=None, error=None)
        d.update(kw)
        return d


def run_shard(prop, modname, shard, tier, seed, scratch):
    """Executed inside a worker process."""
    import hypothesis
    from hypothesis import HealthCheck, Phase, given, settings
    mod = importlib.import_module(modname)
    rec = Recorder(prop, shard, scratch)
    from .common import set_crumb
    set_crumb(rec.breadcrumb)
    t0 = time.time()
    hseed = derive_seed(seed, prop, shard["id"])
    phases = [Phase.generate] if os.environ.get("VERIF_NO_SHRINK") else \
        [Phase.generate, Phase.shrink]
    n = max(1, int(shard.get("n", 100)))
    try:
        if shard.get("regress"):
            for path in shard["files"]:
                with open(path) as f:
                    saved = json.load(f)
                case = saved["case"]
                rec.breadcrumb(case)
                try:
                    rec.record(case, safe_check(mod, case))
                except Unlisted:
                    rec.last_fail["from_regress"] = os.path.relpath(path, VERIF_DIR)
                    return rec.out(violation=rec.last_fail, wall=time.time() - t0)
            return rec.out(wall=time.time() - t0)
        if shard.get("stateful"):
            from hypothesis.stateful import run_state_machine_as_test
            Machine = mod.machine(shard, rec)
            st_settings = settings(
                max_examples=n, stateful_step_count=int(shard.get("steps", 10)),
                deadline=None, database=None, report_multiple_bugs=False,
                suppress_health_check=list(HealthCheck), phases=phases, print_blob=False)
            try:
                run_state_machine_as_test(hypothesis.seed(hseed)(Machine), settings=st_settings)
            except Unlisted:
                return rec.out(violation=rec.last_fail, wall=time.time() - t0)
            return rec.out(wall=time.time() - t0)

        strat = mod.strategy(shard)

        @hypothesis.seed(hseed)
        @settings(max_examples=n, deadline=None, database=None, report_multiple_bugs=False,
                  suppress_health_check=[HealthCheck.too_slow, HealthCheck.data_too_large,
                                         HealthCheck.large_base_example],
                  phases=phases, print_blob=False)
        @given(strat)
        def test(case):
            rec.breadcrumb(case)
            rec.record(case, safe_check(mod, case))
        try:
            test()
        except Unlisted:
            return rec.out(violation=rec.last_fail, wall=time.time() - t0)
        except hypothesis.errors.Flaky:
            # the same case violated the property on one execution and not on the next.  The checks are pure
            # functions of the case, so this points at the code under test (e.g. a read outside an array).  It is
            # reported as a violation only if the recorded case fails again within 5 further executions.
            fail = getattr(rec, "last_fail", None)
            if fail:
                for _ in range(5):
                    try:
                        rec.record(fail["case"], safe_check(mod, fail["case"]))
                    except Unlisted:
                        rec.last_fail["nondeterministic"] = True
                        return rec.out(violation=rec.last_fail, wall=time.time() - t0)
            raise
        return rec.out(wall=time.time() - t0)
    except BaseException:  # harness error, reported with exit code 2
        return rec.out(error=traceback.format_exc(), wall=time.time() - t0)


def worker_main(prop, modname, tier, seed, scratch, task_q, res_q, env):
    os.environ.update(env)
    try:
        from .common import bootstrap
        bootstrap()
    except BaseException:
        res_q.put(("fatal", os.getpid(), traceback.format_exc()))
        return
    while True:
        try:
            shard = task_q.get(timeout=1)
        except queue.Empty:
            continue
        if shard is None:
            return
        res_q.put(("start", os.getpid(), shard["id"]))
        out = run_shard(prop, modname, shard, tier, seed, scratch)
        res_q.put(("done", os.getpid(), out))


def write_replay(prop, shard_id, fail):
    d = os.path.join(VERIF_DIR, "replays", prop)
    os.makedirs(d, exist_ok=True)
    body = dict(property=prop, shard=shard_id, case=fail["case"], violations=fail["violations"])
    path = os.path.join(d, sha(body)[:16] + ".json")
    with open(path, "w") as f:
        json.dump(body, f, indent=1, sort_keys=True)
    return os.path.relpath(path, VERIF_DIR)


def validate_evidence(ev):
    for k in ("property_id", "tier", "seed", "level", "coverage", "wall_s"):
        assert k in ev, k
    c = ev["coverage"]
    assert isinstance(c["evaluations"], int) and c["evaluations"] >= 1
    assert isinstance(c["distinct_nontrivial"], int) and c["distinct_nontrivial"] >= 2, \
        "distinct_nontrivial < 2"
    assert isinstance(c["rule"], str) and isinstance(c["samples"], list) and c["samples"]


def main(argv=None):
    ap = argparse.ArgumentParser()
    ap.add_argument("prop")
    ap.add_argument("--tier", default=os.environ.get("VERIF_TIER", "quick"),
                    choices=["quick", "thorough"])
    ap.add_argument("--replay")
    ap.add_argument("--shards", help="comma-separated substrings; run only matching shards")
    ap.add_argument("--workers", type=int, default=int(os.environ.get("VERIF_WORKERS", "16")))
    ap.add_argument("--scale", type=float, default=float(os.environ.get("VERIF_SCALE", "1")),
                    help="multiply every shard's example count")
    ap.add_argument("--no-evidence", action="store_true")
    a = ap.parse_args(argv)
    prop = a.prop.upper()
    seed = int(os.environ.get("VERIF_SEED", "1"))
    modname = f"pbt.checks.{prop.lower()}"
    t0 = time.time()

    if a.replay:
        from .common import bootstrap
        bootstrap()
        mod = importlib.import_module(modname)
        with open(a.replay) as f:
            saved = json.load(f)
        res = safe_check(mod, saved["case"])
        bad = 0
        for v in res["viol"]:
            e = match_known(prop, v["sig"])
            if e is None:
                bad += 1
                print(f"  violation: {v['msg']}\n    sig={v['sig']}")
            else:
                print(f"KNOWN-FINDING: property={prop} {e['id']} {e['what']}")
        if bad:
            print(f"VIOLATION property={prop} replay={a.replay}")
            return 1
        print(f"replay passed ({len(res['viol'])} known)")
        return 0

    try:
        # import in the parent only to enumerate shards (cheap: no skglm import at module level)
        sys.path.insert(0, VERIF_DIR)
        mod = importlib.import_module(modname)
        shards = mod.shards(a.tier)
    except BaseException:
        traceback.print_exc()
        print(f"HARNESS-ERROR property={prop} could not enumerate shards")
        return 2
    if a.shards:
        keys = a.shards.split(",")
        shards = [s for s in shards if any(k in s["id"] for k in keys)]
    for s in shards:
        s["n"] = max(1, int(round(s.get("n", 100) * a.scale)))
    rdir = os.path.join(VERIF_DIR, "regress", prop)
    if os.path.isdir(rdir) and (not a.shards or "regress" in a.shards.split(",")):
        files = sorted(os.path.join(rdir, f) for f in os.listdir(rdir) if f.endswith(".json"))
        if files:
            shards.insert(0, dict(id="regress", regress=True, files=files, cost=1e9))
    shards.sort(key=lambda s: -s.get("cost", s.get("n", 100)))
    if not shards:
        print("no shards")
        return 2

    scratch = os.path.join(VERIF_DIR, "scratch", f"{prop}-{os.getpid()}")
    os.makedirs(scratch, exist_ok=True)
    ctx = mp.get_context("spawn")
    task_q, res_q = ctx.Queue(), ctx.Queue()
    for s in shards:
        task_q.put(s)
    nw = max(1, min(a.workers, len(shards)))
    env = {k: os.environ[k] for k in os.environ if k.startswith(("NUMBA_", "VERIF_"))}
    env.update(getattr(mod, "WORKER_ENV", {}))
    procs = {}

    def spawn():
        p = ctx.Process(target=worker_main,
                        args=(prop, modname, a.tier, seed, scratch, task_q, res_q, env))
        p.start()
        procs[p.pid] = dict(proc=p, shard=None, since=time.time())

    for _ in range(nw):
        spawn()
    by_id = {s["id"]: s for s in shards}
    pending = set(by_id)
    outs, errors, crashes = [], [], []
    shard_timeout = float(os.environ.get("VERIF_SHARD_TIMEOUT",
                                         getattr(mod, "SHARD_TIMEOUT", 1500 if a.tier == "quick" else 7200)))
    while pending:
        try:
            kind, pid, payload = res_q.get(timeout=2)
        except queue.Empty:
            kind = None
        if kind == "fatal":
            errors.append(("bootstrap", payload))
            break
        if kind == "start":
            procs[pid]["shard"] = payload
            procs[pid]["since"] = time.time()
        elif kind == "done":
            procs[pid]["shard"] = None
            pending.discard(payload["shard"])
            outs.append(payload)
            if payload["error"]:
                errors.append((payload["shard"], payload["error"]))
        # liveness / timeouts
        for pid, st in list(procs.items()):
            p = st["proc"]
            if not p.is_alive() and st["shard"] is not None:
                sid = st["shard"]
                crumb = os.path.join(scratch, f"{sid}.current.json")
                case = None
                if os.path.exists(crumb):
                    with open(crumb) as f:
                        case = json.load(f)
                crashes.append(dict(shard=sid, exitcode=p.exitcode, case=case))
                pending.discard(sid)
                del procs[pid]
                if pending:
                    spawn()
            elif not p.is_alive():
                del procs[pid]
            elif st["shard"] is not None and time.time() - st["since"] > shard_timeout:
                sid = st["shard"]
                p.kill()
                errors.append((sid, f"shard exceeded {shard_timeout}s (inconclusive)"))
                pending.discard(sid)
                del procs[pid]
                if pending:
                    spawn()
        if not procs and pending:
            errors.append(("pool", "all workers exited with shards pending"))
            break
    for st in procs.values():
        task_q.put(None)
    for st in procs.values():
        st["proc"].join(timeout=10)
        if st["proc"].is_alive():
            st["proc"].kill()

    # ---- aggregate
    evaluations = sum(o["evaluations"] for o in outs)
    hashes = set()
    classes = Counter()
    samples, known, info = [], {}, {}
    sums = Counter()
    per_shard = {}
    for o in sorted(outs, key=lambda o: o["shard"]):
        hashes.update(o["hashes"])
        classes.update(o["classes"])
        per_shard[o["shard"]] = dict(evaluations=o["evaluations"], nontrivial=len(o["hashes"]),
                                     wall_s=round(o.get("wall", 0), 1))
        for smp in o["samples"]:
            if len(samples) < MAX_SAMPLES_TOTAL:
                samples.append(smp)
        for k, v in o["known"].items():
            slot = known.setdefault(k, dict(count=0, what=v["what"], example=v["example"]))
            slot["count"] += v["count"]
        for k, v in o["info"].items():
            info[k] = max(info.get(k, v), v)
        sums.update(o.get("sums", {}))
    violations = []
    for o in outs:
        if o["violation"]:
            violations.append((o["shard"], o["violation"]))
    for c in crashes:
        sig = dict(kind="worker-death", shard=c["shard"])
        case = c["case"]
        extra = getattr(mod, "crash_signature", None)
        if extra and case is not None:
            sig.update(extra(case))
        e = match_known(prop, sig)
        if e is not None:
            slot = known.setdefault(e["id"], dict(count=0, what=e["what"], example=dict(sig=sig)))
            slot["count"] += 1
        else:
            violations.append((c["shard"], dict(
                case=case, violations=[dict(sig=sig, msg=f"worker process died (exit {c['exitcode']}) "
                                            "while executing this case", detail={})])))

    for kid, v in sorted(known.items()):
        print(f"KNOWN-FINDING: property={prop} {kid} {v['what']} [{v['count']} cases excluded]")
    rc = 0
    for sid, fail in violations:
        path = write_replay(prop, sid, fail)
        shown = fail["violations"] if os.environ.get("VERIF_REPORT_ALL") else fail["violations"][:1]
        for v0 in shown:
            print(f"  shard {sid}: {v0['msg']}\n    sig={v0['sig']}")
        if len(fail["violations"]) > len(shown):
            print(f"    (+{len(fail['violations']) - len(shown)} more unlisted violations in this case; VERIF_REPORT_ALL=1 shows them)")
        print(f"VIOLATION property={prop} replay={path}")
        rc = 1
    if errors:
        for sid, tb in errors:
            print(f"HARNESS-ERROR shard={sid}\n{tb}")
        if rc == 0:
            rc = 2

    wall = time.time() - t0
    ev = dict(
        property_id=prop, tier=a.tier, seed=seed, level=getattr(mod, "LEVEL", "exploration"),
        coverage=dict(
            evaluations=evaluations, distinct_nontrivial=len(hashes),
            rule=mod.RULE, samples=samples, exhaustive=bool(getattr(mod, "EXHAUSTIVE", {}).get(a.tier, False)),
            shards=per_shard, classes=dict(sorted(classes.items())),
            known_findings_hit={k: dict(count=v["count"], what=v["what"], example=v["example"])
                                for k, v in known.items()},
            metrics=info, totals=dict(sums), workers=nw,
        ),
        assumptions=list(getattr(mod, "ASSUMPTIONS", [])),
        wall_s=round(wall, 2), violations=len(violations),
    )
    if not a.no_evidence and not a.shards:
        try:
            validate_evidence(ev)
        except BaseException as e:
            print(f"HARNESS-ERROR evidence invalid: {e!r}")
            rc = rc or 2
        os.makedirs(os.path.join(VERIF_DIR, "evidence"), exist_ok=True)
        with open(os.path.join(VERIF_DIR, "evidence", f"{prop}.json"), "w") as f:
            json.dump(to_jsonable(ev), f, indent=1, sort_keys=True)
    shutil.rmtree(scratch, ignore_errors=True)
    print(f"{prop} tier={a.tier} seed={seed}: shards={len(outs)}/{len(shards)} evaluations={evaluations} "
          f"distinct_nontrivial={len(hashes)} known={sum(v['count'] for v in known.values())} "
          f"violations={len(violations)} errors={len(errors)} wall={wall:.1f}s")
    top = ", ".join(f"{k}={v}" for k, v in sorted(classes.items()))
    print(f"  classes: {top}")
    return rc


if __name__ == "__main__":
    sys.exit(main())
