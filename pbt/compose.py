"""Registry: JSON specs -> (skglm object, refmath object). skglm is imported lazily (workers only)."""
import numpy as np

from . import refmath as R


def sk():
    """Lazy access to skglm modules (after common.bootstrap())."""
    import skglm
    import skglm.datafits
    import skglm.penalties
    import skglm.solvers
    import skglm.experimental
    return skglm


def compiled(obj):
    from skglm.utils.jit_compilation import compiled_clone
    return compiled_clone(obj)


def arr(x, dtype=float):
    return np.asarray(x, dtype=dtype)


# ---------------------------------------------------------------------------------------------
SCALAR_PENALTIES = ["L1", "WeightedL1", "L1_plus_L2", "MCPenalty", "WeightedMCPenalty", "SCAD",
                    "IndicatorBox", "PositiveConstraint", "L0_5", "L2_3", "LogSumPenalty"]
CONVEX_SCALAR = ["L1", "WeightedL1", "L1_plus_L2", "IndicatorBox", "PositiveConstraint"]
HAS_POSITIVE = ["L1", "WeightedL1", "L1_plus_L2", "MCPenalty", "WeightedMCPenalty"]


def make_penalty(spec):
    """spec: dict(name=..., alpha=..., ...) -> (skglm penalty instance (not compiled), refmath penalty)."""
    P = sk().penalties
    n = spec["name"]
    a = spec.get("alpha")
    pos = bool(spec.get("positive", False))
    if n == "L1":
        return P.L1(a, pos), R.L1(a, None, pos)
    if n == "WeightedL1":
        w = arr(spec["weights"])
        return P.WeightedL1(a, w, pos), R.L1(a, w, pos)
    if n == "L1_plus_L2":
        return P.L1_plus_L2(a, spec["l1_ratio"], pos), R.L1_plus_L2(a, spec["l1_ratio"], pos)
    if n == "MCPenalty":
        return P.MCPenalty(a, spec["gamma"], pos), R.MCP(a, spec["gamma"], None, pos)
    if n == "WeightedMCPenalty":
        w = arr(spec["weights"])
        return P.WeightedMCPenalty(a, spec["gamma"], w, pos), R.MCP(a, spec["gamma"], w, pos)
    if n == "SCAD":
        return P.SCAD(a, spec["gamma"]), R.SCAD(a, spec["gamma"])
    if n == "IndicatorBox":
        return P.IndicatorBox(a), R.Box(a)
    if n == "PositiveConstraint":
        return P.PositiveConstraint(), R.Positive()
    if n == "L0_5":
        return P.L0_5(a), R.Lq(a, .5)
    if n == "L2_3":
        return P.L2_3(a), R.Lq(a, 2 / 3)
    if n == "LogSumPenalty":
        return P.LogSumPenalty(a, spec["eps"]), R.LogSum(a, spec["eps"])
    if n == "L2":
        return P.L2(a), R.L2sq(a)
    if n == "WeightedGroupL2":
        gp, gi, groups = groups_arrays(spec["groups"], spec["n_features"])
        w = arr(spec["weights"])
        return (P.WeightedGroupL2(a, w, gp, gi, pos), R.GroupL2(a, w, groups, pos))
    if n == "WeightedL1GroupL2":
        gp, gi, groups = groups_arrays(spec["groups"], spec["n_features"])
        wg, wf = arr(spec["weights_groups"]), arr(spec["weights_features"])
        return (P.WeightedL1GroupL2(a, wg, wf, gp, gi), R.SparseGroup(a, wg, wf, groups))
    if n == "L2_1":
        return P.L2_1(a), R.L21(a)
    if n == "L2_05":
        return P.L2_05(a), R.L205(a)
    if n == "BlockMCPenalty":
        return P.BlockMCPenalty(a, spec["gamma"]), R.BlockMCP(a, spec["gamma"])
    if n == "BlockSCAD":
        return P.BlockSCAD(a, spec["gamma"]), R.BlockSCAD(a, spec["gamma"])
    if n == "SLOPE":
        return P.SLOPE(arr(spec["alphas"])), None
    raise KeyError(n)


def groups_arrays(groups, n_features):
    """groups: list of lists of feature indices (a partition). Returns (grp_ptr, grp_indices, list of arrays)
    built by the harness itself (int32, like skglm.utils.data.grp_converter's output)."""
    gi = np.array([j for g in groups for j in g], dtype=np.int32)
    gp = np.cumsum([0] + [len(g) for g in groups]).astype(np.int32)
    return gp, gi, [np.array(g, dtype=int) for g in groups]


# ---------------------------------------------------------------------------------------------
def make_datafit(spec):
    """spec: dict(name=..., ...) -> (skglm datafit (not compiled), refmath loss)."""
    D = sk().datafits
    n = spec["name"]
    if n == "Quadratic":
        return D.Quadratic(), R.Quadratic()
    if n == "WeightedQuadratic":
        sw = arr(spec["sample_weights"])
        return D.WeightedQuadratic(sw), R.WeightedQuadratic(sw)
    if n == "Logistic":
        return D.Logistic(), R.Logistic()
    if n == "Huber":
        return D.Huber(spec["delta"]), R.Huber(spec["delta"])
    if n == "Poisson":
        return D.Poisson(), R.Poisson()
    if n == "Gamma":
        return D.Gamma(), R.Gamma()
    if n == "Cox":
        return D.Cox(bool(spec["use_efron"])), R.Cox(bool(spec["use_efron"]))
    if n == "QuadraticSVC":
        return D.QuadraticSVC(), None
    if n == "QuadraticGroup":
        gp, gi, _ = groups_arrays(spec["groups"], spec["n_features"])
        return D.QuadraticGroup(gp, gi), R.Quadratic()
    if n == "LogisticGroup":
        gp, gi, _ = groups_arrays(spec["groups"], spec["n_features"])
        return D.LogisticGroup(gp, gi), R.Logistic()
    if n == "QuadraticMultiTask":
        return D.QuadraticMultiTask(), R.QuadraticMultiTask()
    if n == "SqrtQuadratic":
        from skglm.experimental.sqrt_lasso import SqrtQuadratic
        return SqrtQuadratic(), R.SqrtQuadratic()
    if n == "Pinball":
        from skglm.experimental.quantile_regression import Pinball
        return Pinball(spec["quantile"]), R.Pinball(spec["quantile"])
    raise KeyError(n)


def make_solver(spec):
    S = sk().solvers
    n = spec["name"]
    kw = {k: v for k, v in spec.items() if k != "name"}
    if n == "PDCD_WS":
        from skglm.experimental.pdcd_ws import PDCD_WS
        return PDCD_WS(**kw)
    return getattr(S, n)(**kw)


def to_container(X, storage):
    """Build the container handed to solvers from the dense float64 matrix X."""
    from scipy import sparse
    X = np.asarray(X, float)
    if storage == "dense" or storage == "F":
        return np.asfortranarray(X)
    if storage == "C":
        return np.ascontiguousarray(X)
    if storage == "csc":
        return sparse.csc_matrix(X)
    if storage == "csc64":
        M = sparse.csc_matrix(X)
        M.indices = M.indices.astype(np.int64)
        M.indptr = M.indptr.astype(np.int64)
        return M
    if storage == "csr":
        return sparse.csr_matrix(X)
    raise KeyError(storage)


def init_datafit(df, X, y):
    """Initialise a compiled datafit on the data, as the documented examples / _glm_fit do."""
    from scipy import sparse
    if sparse.issparse(X):
        if hasattr(df, "initialize_sparse"):
            df.initialize_sparse(X.data, X.indptr, X.indices, y)
    else:
        if hasattr(df, "initialize"):
            df.initialize(X, y)
    return df
