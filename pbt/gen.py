"""Hypothesis strategies shared by the checks. All randomness lives here (DESIGN.md 2.2)."""
import math

import numpy as np
from hypothesis import strategies as st
from hypothesis.extra import numpy as hnp

ALPHABET = [0., .5, -.5, 1., -1., 2., -2., 3., -3.]


# ---------------------------------------------------------------------------------------------
# scalars: readable decimal mantissa x power of ten; shrink towards 1.0 / small exponents
@st.composite
def pos_float(draw, lo_exp=-3, hi_exp=2):
    m = draw(st.integers(10, 99)) / 10.
    e = draw(st.integers(lo_exp, hi_exp))
    return float(m * 10. ** e)


@st.composite
def real(draw, lo_exp=-3, hi_exp=2, zero=.1):
    k = draw(st.integers(0, 99))
    if k < 100 * zero:
        return 0.
    v = draw(pos_float(lo_exp, hi_exp))
    return v if draw(st.booleans()) else -v


def unit(lo=0., hi=1., steps=100):
    return st.integers(0, steps).map(lambda k: lo + (hi - lo) * k / steps)


def frac_log(lo_exp, hi_exp, steps=60):
    """10**u with u on a grid in [lo_exp, hi_exp]."""
    return st.integers(0, steps).map(lambda k: float(10. ** (lo_exp + (hi_exp - lo_exp) * k / steps)))


@st.composite
def near(draw, t):
    """a point at / around the threshold t (t > 0): exact, +-1 ulp, +-1e-9, +-1e-3, +-10% relative."""
    kind = draw(st.integers(0, 8))
    if kind == 0:
        return t
    if kind == 1:
        return math.nextafter(t, math.inf)
    if kind == 2:
        return math.nextafter(t, -math.inf)
    rel = [1e-9, -1e-9, 1e-3, -1e-3, .1, -.1][kind - 3]
    return t * (1 + rel)


# ---------------------------------------------------------------------------------------------
# weights with exact zeros
@st.composite
def weights(draw, p, zero_prob=.3, allow_all_zero=False):
    out = []
    for _ in range(p):
        if draw(st.integers(0, 99)) < 100 * zero_prob:
            out.append(0.)
        else:
            out.append(draw(st.integers(1, 30)) / 10.)
    if not allow_all_zero and not any(out):
        out[draw(st.integers(0, p - 1))] = 1.
    return out


# ---------------------------------------------------------------------------------------------
# design matrices
@st.composite
def matrix(draw, n_min=2, n_max=24, p_min=1, p_max=16, degenerate=True, family=None,
           density=None, scales=True):
    """Returns dict(X=list of rows, flags=[...]). Two interleaved families (structured / generic)."""
    n = draw(st.integers(n_min, n_max))
    p = draw(st.integers(p_min, p_max))
    fam = family or draw(st.sampled_from(["structured", "generic", "generic"]))
    if fam == "structured":
        X = draw(hnp.arrays(np.float64, (n, p), elements=st.sampled_from(ALPHABET)))
    else:
        K = draw(hnp.arrays(np.int16, (n, p), elements=st.integers(-3000, 3000)))
        X = K.astype(float) / 1000.
    flags = [fam]
    dens = density if density is not None else draw(st.sampled_from([1., 1., .5, .2]))
    if dens < 1:
        M = draw(hnp.arrays(np.int8, (n, p), elements=st.integers(0, 9)))
        X = X * (M < 10 * dens)
        flags.append(f"density{dens}")
    if degenerate and p >= 1:
        d = draw(st.integers(0, 9))
        if d == 0:
            j = draw(st.integers(0, p - 1))
            X[:, j] = 0.
            flags.append("zero-col")
        elif d == 1 and p >= 2:
            j, k = draw(st.integers(0, p - 1)), draw(st.integers(0, p - 1))
            if j != k:
                X[:, j] = X[:, k]
                flags.append("dup-col")
        elif d == 2:
            j = draw(st.integers(0, p - 1))
            X[:, j] = draw(st.sampled_from([1., -2., .5]))
            flags.append("const-col")
        elif d == 3 and fam == "structured" and n >= 3:
            # contrast / sum-to-zero coding: every column sums to exactly zero (dyadic entries, so exactly in floats)
            X[-1, :] = -X[:-1, :].sum(axis=0)
            flags.append("zero-sum-cols")
    if scales and draw(st.integers(0, 4)) == 0:
        ex = draw(st.lists(st.integers(-3, 3), min_size=p, max_size=p))
        X = X * (10. ** np.array(ex, float))[None, :]
        flags.append("col-scales")
    if n < p:
        flags.append("n<p")
    return dict(X=X.tolist(), n=n, p=p, flags=flags)


@st.composite
def real_target(draw, n, centred=False):
    """regression target: small integers/decimals, non-centred on purpose."""
    K = draw(hnp.arrays(np.int16, (n,), elements=st.integers(-3000, 3000)))
    y = K.astype(float) / 1000.
    if not centred:
        y = y + draw(st.sampled_from([0., 1., -2., 5.]))
    return y.tolist()


@st.composite
def planted_target(draw, X, noise=True, offset=True):
    """y = X w* + noise + offset with a sparse planted w*."""
    X = np.asarray(X, float)
    n, p = X.shape
    w = np.array(draw(st.lists(st.sampled_from([0., 0., 0., 1., -1., 2., -.5]), min_size=p, max_size=p)))
    y = X @ w
    if noise:
        K = draw(hnp.arrays(np.int16, (n,), elements=st.integers(-1000, 1000)))
        y = y + K.astype(float) / 1000.
    if offset:
        y = y + draw(st.sampled_from([0., 1., -2., 5.]))
    return y.tolist()


@st.composite
def sign_target(draw, n):
    y = draw(st.lists(st.sampled_from([1., -1.]), min_size=n, max_size=n))
    if n >= 2 and len(set(y)) == 1:
        y[draw(st.integers(0, n - 1))] *= -1.
    return y


@st.composite
def planted_sign_target(draw, X):
    """labels correlated with the design: sign(X w* + noise); both classes forced present"""
    X = np.asarray(X, float)
    n, p = X.shape
    w = np.array(draw(st.lists(st.sampled_from([0., 1., -1., 2., -.5, .5]), min_size=p, max_size=p)))
    K = draw(hnp.arrays(np.int16, (n,), elements=st.integers(-500, 500)))
    z = X @ w + K.astype(float) / 1000. * draw(st.sampled_from([0., 1., 3.]))
    y = np.where(z >= 0, 1., -1.)
    if n >= 2 and len(set(y.tolist())) == 1:
        y[draw(st.integers(0, n - 1))] *= -1.
    return y.tolist()


@st.composite
def count_target(draw, n):
    return [float(v) for v in draw(st.lists(st.integers(0, 6), min_size=n, max_size=n))]


@st.composite
def positive_target(draw, n):
    return [v / 10. for v in draw(st.lists(st.integers(1, 60), min_size=n, max_size=n))]


@st.composite
def survival_target(draw, n, ties=True):
    """(time, status) rows with forced ties and censoring; at least one observed event."""
    pool = max(1, n // 2) if ties else 10 * n
    if ties:
        tm = draw(st.lists(st.integers(1, pool), min_size=n, max_size=n))
    else:
        tm = draw(st.permutations(list(range(1, n + 1))))
    s = draw(st.lists(st.sampled_from([1., 1., 0.]), min_size=n, max_size=n))
    if not any(s):
        s[draw(st.integers(0, n - 1))] = 1.
    return [[float(t), float(c)] for t, c in zip(tm, s)]


@st.composite
def partition(draw, p, contiguous=None, max_groups=6):
    """a partition of range(p) into groups (list of lists), non-contiguous in general."""
    kmax = min(p, max_groups)
    ng = draw(st.sampled_from([1] + [k for k in range(2, kmax + 1) for _ in range(3)]))   # a single group is the rare case
    contiguous = draw(st.booleans()) if contiguous is None else contiguous
    order = list(range(p)) if contiguous else list(draw(st.permutations(list(range(p)))))
    if ng == 1:
        cuts = []
    else:
        cuts = sorted(draw(st.sets(st.integers(1, p - 1), min_size=ng - 1, max_size=ng - 1)))
    bounds = [0] + cuts + [p]
    return [order[a:b] for a, b in zip(bounds[:-1], bounds[1:])]


def budgets_epochs():
    return st.sampled_from([1, 2, 5, 6, 7, 8, 10, 11, 13, 14, 20, 100, 50_000])


def budgets_iter():
    return st.sampled_from([0, 1, 2, 3, 5, 20, 50])


def tols():
    return st.sampled_from([1e-2, 1e-3, 1e-4, 1e-5, 1e-6, 1e-8])
