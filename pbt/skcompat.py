"""sklearn >= 1.6 removed BaseEstimator._validate_data, which the pinned skglm regressors call.

Installed only inside the harness's own processes (DESIGN.md 2.10): delegates to the public
replacement sklearn.utils.validation.validate_data. The repository is untouched.
"""
import sklearn.base
from sklearn.utils.validation import validate_data

if not hasattr(sklearn.base.BaseEstimator, "_validate_data"):
    def _validate_data(self, X="no_validation", y="no_validation", reset=True,
                       validate_separately=False, **kw):
        return validate_data(self, X, y, reset=reset,
                             validate_separately=validate_separately, **kw)
    sklearn.base.BaseEstimator._validate_data = _validate_data
