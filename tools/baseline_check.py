#!/venv/bin/python
"""Run the repository's test-suite (guard off: no harness env) and compare with BASELINE.json's stable_pass list.
Usage: tools/baseline_check.py [-n WORKERS]   exit 0 iff every stable_pass test still passes."""
import json, os, subprocess, sys, tempfile, xml.etree.ElementTree as ET
n = sys.argv[sys.argv.index("-n") + 1] if "-n" in sys.argv else "8"
base = json.load(open("/root/.vp/BASELINE.json"))
out = tempfile.mktemp(suffix=".xml")
env = {k: v for k, v in os.environ.items() if not k.startswith(("VERIF_", "SKGLM_VERIF"))}
cmd = ["/venv/bin/python", "-m", "pytest", "-q", "-p", "no:cacheprovider", "--timeout=900",
       "--continue-on-collection-errors", "-n", n, f"--junitxml={out}"]
subprocess.run(cmd, cwd="/repo", env=env, stdout=subprocess.DEVNULL, stderr=subprocess.DEVNULL)
passed = set()
for tc in ET.parse(out).getroot().iter("testcase"):
    if not any(c.tag in ("failure", "error", "skipped") for c in tc):
        passed.add(f"{tc.get('classname')}::{tc.get('name')}")
os.remove(out)
missing = [t for t in base["stable_pass"] if t not in passed]
print(f"stable_pass={len(base['stable_pass'])} still_passing={len(base['stable_pass']) - len(missing)} now_passing_total={len(passed)}")
for t in missing:
    print("REGRESSION", t)
sys.exit(1 if missing else 0)
