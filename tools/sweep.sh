#!/bin/bash
# tools/sweep.sh [tier] [extra run args]: run every registered check once, print one summary line per check.
cd "$(dirname "$0")/.."
tier=${1:-quick}; shift
for id in C01 C02 C03 C04 C05 C06 C07 C08 C09 C10 C11 C12 C13 C14 C15 C16 C17 C18 C19 C20; do
  out=$(./run $id --tier $tier "$@" 2>&1); rc=$?
  echo "$id rc=$rc $(echo "$out" | grep -E "^$id tier" | cut -c1-160)"
  echo "$out" | grep -E "VIOLATION|HARNESS|^  shard" | cut -c1-260
done
