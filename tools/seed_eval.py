#!/venv/bin/python
"""tools/seed_eval.py <seed-name> [CHECK ...]
Confirm a seeded breakage kept under /verif/seeded/<seed-name>/ (patch.diff, demo.py, meta.json) and run checks on it.
Everything happens in a scratch git worktree of /repo HEAD (removed afterwards); checks see it through VERIF_REPO.
Writes seeded/<seed-name>/result.json: demo clean/patched, stable tests, per-check exit code and first violation."""
import json, os, subprocess, sys, tempfile, shutil, xml.etree.ElementTree as ET
V = "/verif"
name = sys.argv[1]
d = os.path.join(V, "seeded", name)
meta = json.load(open(os.path.join(d, "meta.json")))
prop = meta["property"]
checks = [a for a in sys.argv[2:] if not a.startswith("--")] or [prop]
wt = tempfile.mkdtemp(prefix="seedwt.")
env = dict(os.environ, PYTHONHASHSEED="0")
res = dict(seed=name, property=prop, head=subprocess.check_output(["git", "-C", "/repo", "rev-parse", "--short", "HEAD"]).decode().strip())
try:
    subprocess.check_call(["git", "-C", "/repo", "worktree", "add", "-q", "--detach", wt, "HEAD"])
    def demo():
        p = subprocess.run(["/venv/bin/python", os.path.join(d, "demo.py")], env=dict(env, SKGLM_PATH=wt, PYTHONPATH=wt), cwd=wt, capture_output=True, text=True, timeout=1800)
        return p.returncode, (p.stdout + p.stderr)[-400:]
    rc, out = demo(); res["demo_clean_rc"] = rc; res["demo_clean_tail"] = out[-200:]
    ap = subprocess.run(["git", "-C", wt, "apply", os.path.join(d, "patch.diff")], capture_output=True, text=True)
    res["patch_applies"] = ap.returncode == 0
    if ap.returncode != 0:
        res["apply_error"] = ap.stderr[-300:]
    else:
        rc, out = demo(); res["demo_patched_rc"] = rc; res["demo_patched_tail"] = out[-200:]
        if "--no-tests" not in sys.argv:
            jx = os.path.join(wt, "junit.xml")
            subprocess.run(["/venv/bin/python", "-m", "pytest", "-q", "-p", "no:cacheprovider", "--timeout=900", "--continue-on-collection-errors", "-n", "8", f"--junitxml={jx}"],
                           cwd=wt, env={k: v for k, v in env.items() if not k.startswith("VERIF_")}, stdout=subprocess.DEVNULL, stderr=subprocess.DEVNULL)
            passed = {f"{tc.get('classname')}::{tc.get('name')}" for tc in ET.parse(jx).getroot().iter("testcase") if not any(c.tag in ("failure", "error", "skipped") for c in tc)}
            base = json.load(open("/root/.vp/BASELINE.json"))["stable_pass"]
            res["stable_missing"] = [t for t in base if t not in passed]
        res["checks"] = {}
        for c in [c for c in checks if not c.startswith("--")]:
            p = subprocess.run(["./run", c, "--tier", "quick", "--no-evidence"], cwd=V, env=dict(env, VERIF_REPO=wt), capture_output=True, text=True, timeout=7200)
            lines = [l for l in p.stdout.splitlines() if l.startswith(("VIOLATION", "  shard", "HARNESS", c + " tier"))]
            res["checks"][c] = dict(rc=p.returncode, lines=[l[:300] for l in lines[:6]])
            print(name, c, "rc=", p.returncode, flush=True)
finally:
    subprocess.run(["git", "-C", "/repo", "worktree", "remove", "--force", wt])
    shutil.rmtree(wt, ignore_errors=True)
json.dump(res, open(os.path.join(d, "result.json"), "w"), indent=1)
print(json.dumps({k: v for k, v in res.items() if k != "checks"}, indent=0)[:600])
