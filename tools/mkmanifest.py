#!/venv/bin/python
"""Regenerate MANIFEST.json from the table below (single source of truth for registered checks)."""
import json, os
V = os.path.dirname(os.path.dirname(os.path.abspath(__file__)))
CHECKS = json.load(open(os.path.join(V, "tools", "checks.json")))
props = [json.loads(l) for l in open(os.path.join(V, "properties.jsonl"))]
checks = []
for p in props:
    c = CHECKS["checks"].get(p["id"])
    if not c:
        continue
    checks.append(dict(
        property_id=p["id"], quick_cmd=f"./run {p['id']} --tier quick", thorough_cmd=f"./run {p['id']} --tier thorough",
        evidence_file=f"/verif/evidence/{p['id']}.json", replay_cmd_template=f"./run {p['id']} --replay {{path}}",
        engine="pbt-runner",
        level_claimed=dict(category=c.get("category", "exploration"), text=c["text"], design_ref=c["design_ref"]),
        level_note=c["note"], technique=c["technique"]))
na = [dict(property_id=p["id"], reason=CHECKS["not_applicable"].get(p["id"], "check not built yet in this session (see DESIGN.md section 3 for the planned oracle)"))
      for p in props if p["id"] not in CHECKS["checks"]]
m = dict(version=1,
         setup_cmd="/venv/bin/python -c 'import hypothesis' 2>/dev/null || /venv/bin/pip install --no-index --find-links /opt/veriftools/wheels hypothesis",
         hooks=dict(guard="SKGLM_VERIF", enable="no source hooks: checks import /repo's working tree in fresh processes (numba JIT, no on-disk cache)",
                    baseline_off_cmd="cd /repo && /venv/bin/python -m pytest -ra -q -p no:cacheprovider --timeout=900 --continue-on-collection-errors",
                    source_commits=[], add_only=True),
         engines=[dict(name="pbt-runner", path="/verif/pbt/runner.py", serves_properties=[c["property_id"] for c in checks],
                       kind_free_text="Hypothesis 6.168 property-based tests sharded by composition over 16 spawn workers; independent numpy reference maths (pbt/refmath.py); shrunk failures become replay files")],
         checks=checks, not_applicable=na,
         notes="See DESIGN.md. Known findings: known_findings.json. Seeded breakages: seeded/. ./run <ID> --tier quick|thorough; VERIF_SEED honoured.")
json.dump(m, open(os.path.join(V, "MANIFEST.json"), "w"), indent=1)
print(len(checks), "checks;", len(na), "not_applicable")
