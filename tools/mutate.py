#!/venv/bin/python
"""tools/mutate.py -- sensitivity sampling by small syntactic mutations of the library.

    tools/mutate.py --files skglm/penalties/separable.py,skglm/utils/prox_funcs.py \
                    --checks C07,C08 --n 30 --seed 1 [--scale .3] [--tests] [--out report.json]

For each sampled mutation point (arithmetic operator swap, comparison boundary swap, numeric constant
tweak, dropped unary minus) of the given files, a scratch worktree of /repo HEAD (outside /repo and /verif,
removed afterwards) gets ONE mutation, and the listed checks are run against it (VERIF_REPO=<worktree>,
no evidence written, no shrinking).  With --tests the repository's own suite is run first and the mutant is
marked `tests_kill` when a stable_pass test fails (such mutants are not 'realistic breakages' in the sense of
the brief but are still reported).  Survivors (no check exits 1) are candidates for equivalent mutants or for
blind spots of the checks: they are listed with file:line and the changed text for manual triage.

This is a measurement tool, not a registered check; nothing here touches /repo's working tree.
"""
import argparse
import ast
import json
import os
import random
import subprocess
import sys
import tempfile

VERIF = os.path.dirname(os.path.dirname(os.path.abspath(__file__)))
SKIP_FUNCS = {"get_spec", "params_to_dict", "__repr__", "__str__"}
BIN = {ast.Add: ("+", "-"), ast.Sub: ("-", "+"), ast.Mult: ("*", "/"), ast.Div: ("/", "*")}
CMP = {ast.Lt: ("<", "<="), ast.LtE: ("<=", "<"), ast.Gt: (">", ">="), ast.GtE: (">=", ">")}


def offsets(src):
    out, o = [0], 0
    for line in src.splitlines(True):
        o += len(line)
        out.append(o)
    return out


def points(src):
    tree = ast.parse(src)
    off = offsets(src)

    def pos(node, end=False):
        return off[(node.end_lineno if end else node.lineno) - 1] + (node.end_col_offset if end else node.col_offset)
    pts = []

    def visit(node, fn):
        if isinstance(node, (ast.FunctionDef, ast.AsyncFunctionDef)):
            if node.name in SKIP_FUNCS:
                return
            fn = node.name
            body = node.body
            if body and isinstance(body[0], ast.Expr) and isinstance(getattr(body[0], "value", None), ast.Constant) \
                    and isinstance(body[0].value.value, str):
                body = body[1:]
            for ch in body:
                visit(ch, fn)
            return
        if fn is not None:
            if isinstance(node, ast.BinOp) and type(node.op) in BIN:
                a, b = pos(node.left, True), pos(node.right)
                old, new = BIN[type(node.op)]
                k = src.find(old, a, b)
                if k >= 0 and src[k:k + 2] not in ("**", "//"):
                    pts.append((k, k + len(old), new, fn, node.lineno, f"binop {old}->{new}"))
            elif isinstance(node, ast.Compare) and len(node.ops) == 1 and type(node.ops[0]) in CMP:
                a, b = pos(node.left, True), pos(node.comparators[0])
                old, new = CMP[type(node.ops[0])]
                k = src.find(old, a, b)
                if k >= 0 and src[k:k + len(old) + 1] != old + "=":
                    pts.append((k, k + len(old), new, fn, node.lineno, f"cmp {old}->{new}"))
                elif k >= 0 and len(old) == 2:
                    pts.append((k, k + len(old), new, fn, node.lineno, f"cmp {old}->{new}"))
            elif isinstance(node, ast.UnaryOp) and isinstance(node.op, ast.USub) and not isinstance(node.operand, ast.Constant):
                a = pos(node)
                if src[a] == "-":
                    pts.append((a, a + 1, "", fn, node.lineno, "drop unary minus"))
            elif isinstance(node, ast.Constant) and isinstance(node.value, (int, float)) and not isinstance(node.value, bool):
                a, b = pos(node), pos(node, True)
                v = node.value
                new = {0: "1", 1: "2", 2: "1"}.get(v, repr(v * 2) if isinstance(v, float) else repr(v + 1))
                if isinstance(v, float) and v in (0., 1., 2.):
                    new = {0.: "1.", 1.: "2.", 2.: "1."}[v]
                pts.append((a, b, new, fn, node.lineno, f"const {src[a:b]}->{new}"))
        for ch in ast.iter_child_nodes(node):
            visit(ch, fn)
    visit(tree, None)
    return pts


def run_checks(wt, checks, scale, seed):
    res = {}
    env = dict(os.environ, VERIF_REPO=wt, VERIF_NO_SHRINK="1", VERIF_SEED=str(seed))
    for c in checks:
        cmd = [os.path.join(VERIF, "run"), c, "--tier", "quick", "--no-evidence"]
        if scale:
            cmd += ["--scale", str(scale)]
        p = subprocess.run(cmd, cwd=VERIF, env=env, capture_output=True, text=True)
        line = next((ln for ln in p.stdout.splitlines() if ln.startswith("  shard")), "")
        res[c] = dict(rc=p.returncode, first=line[:200])
    return res


def run_tests(wt):
    import xml.etree.ElementTree as ET
    stable = set(json.load(open("/root/.vp/BASELINE.json"))["stable_pass"])
    jx = wt + ".junit.xml"
    subprocess.run(["/venv/bin/python", "-m", "pytest", "-q", "-p", "no:cacheprovider", "-n", "12", "--timeout=900",
                    "--continue-on-collection-errors", f"--junitxml={jx}"], cwd=wt, capture_output=True)
    ok = set()
    try:
        for tc in ET.parse(jx).getroot().iter("testcase"):
            if not any(ch.tag in ("failure", "error", "skipped") for ch in tc):
                ok.add(tc.get("classname") + "::" + tc.get("name"))
    finally:
        if os.path.exists(jx):
            os.remove(jx)
    return sorted(stable - ok)


def main():
    ap = argparse.ArgumentParser()
    ap.add_argument("--files", required=True)
    ap.add_argument("--checks", required=True)
    ap.add_argument("--n", type=int, default=20)
    ap.add_argument("--seed", type=int, default=1)
    ap.add_argument("--scale", default=None)
    ap.add_argument("--tests", action="store_true")
    ap.add_argument("--funcs", default=None, help="only mutate inside these comma-separated function names")
    ap.add_argument("--out", default=None)
    a = ap.parse_args()
    files = a.files.split(",")
    checks = a.checks.split(",")
    wt = tempfile.mkdtemp(prefix="mut.", dir="/tmp")
    subprocess.run(["git", "-C", "/repo", "worktree", "add", "-q", "--detach", wt, "HEAD"], check=True)
    # the working tree of /repo may hold uncommitted changes under test: mirror them
    diff = subprocess.run(["git", "-C", "/repo", "diff"], capture_output=True, text=True).stdout
    if diff.strip():
        subprocess.run(["git", "-C", wt, "apply"], input=diff, text=True, check=True)
    allpts = []
    srcs = {}
    for f in files:
        srcs[f] = open(os.path.join(wt, f)).read()
        for p in points(srcs[f]):
            if a.funcs and p[3] not in a.funcs.split(","):
                continue
            allpts.append((f,) + p)
    rnd = random.Random(a.seed)
    rnd.shuffle(allpts)
    report = []
    try:
        for f, s, e, new, fn, line, what in allpts[:a.n]:
            src = srcs[f]
            mut = src[:s] + new + src[e:]
            try:
                compile(mut, f, "exec")
            except SyntaxError:
                continue
            open(os.path.join(wt, f), "w").write(mut)
            entry = dict(file=f, line=line, func=fn, what=what, text=src.splitlines()[line - 1].strip()[:120])
            if a.tests:
                entry["tests_missing"] = run_tests(wt)[:5]
            entry["checks"] = run_checks(wt, checks, a.scale, a.seed)
            entry["killed_by"] = [c for c, r in entry["checks"].items() if r["rc"] == 1]
            entry["harness_err"] = [c for c, r in entry["checks"].items() if r["rc"] not in (0, 1)]
            open(os.path.join(wt, f), "w").write(src)
            report.append(entry)
            tag = "KILLED " + ",".join(entry["killed_by"]) if entry["killed_by"] else ("ERR " + ",".join(entry["harness_err"]) if entry["harness_err"] else "SURVIVED")
            print(f"{tag:18s} {f}:{line} {fn}: {what} | {entry['text']}" + (f" | tests_missing={len(entry.get('tests_missing', []))}" if a.tests else ""), flush=True)
    finally:
        subprocess.run(["git", "-C", "/repo", "worktree", "remove", "--force", wt])
    if a.out:
        json.dump(report, open(a.out, "w"), indent=1)
    k = sum(1 for r in report if r["killed_by"])
    print(f"mutants={len(report)} killed={k} survived={len(report) - k}")


if __name__ == "__main__":
    sys.exit(main())
