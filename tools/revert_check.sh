#!/bin/bash
# tools/revert_check.sh <repo-commit> <PROP> [extra ./run args...]
# Sensitivity tool: scratch worktree of /repo HEAD with ONE fix commit reverted; run the property's check on it.
# Expect exit 1 (the reverted defect is caught). New replay files are listed; the worktree is removed afterwards.
set -u
sha=$1; prop=$2; shift 2
wt=$(mktemp -d /tmp/revert.XXXXXX)
git -C /repo worktree add -q --detach "$wt" HEAD || exit 2
git -C "$wt" revert --no-commit "$sha" >/dev/null 2>&1 || { echo "revert failed"; git -C /repo worktree remove --force "$wt"; exit 2; }
cd /verif
before=$(ls replays/$prop 2>/dev/null | sort)
VERIF_REPO="$wt" ./run "$prop" --no-evidence "$@" > "$wt.log" 2>&1
rc=$?
grep -E "VIOLATION|^  shard|^$prop tier" "$wt.log" | cut -c1-260
after=$(ls replays/$prop 2>/dev/null | sort)
echo "exit=$rc new replays:"; comm -13 <(echo "$before") <(echo "$after")
if [ -n "${SAVE:-}" ]; then  # keep the first new replay as a committed regression case
  mkdir -p regress/$prop; i=0
  for f in $(comm -13 <(echo "$before") <(echo "$after") | head -${SAVE_N:-1}); do i=$((i+1)); cp replays/$prop/$f regress/$prop/${SAVE}-$i.json; echo "saved regress/$prop/${SAVE}-$i.json"; done
fi
git -C /repo worktree remove --force "$wt"; rm -f "$wt.log"
exit $rc
